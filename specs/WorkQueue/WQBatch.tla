-------------------------------- MODULE WQBatch --------------------------------
(* BoundedBatchPool (pkg/workqueue/bounded_batch_pool.go), transcribed step by step.

   Differences from BoundedPool: admission re-checks `closed` and enqueues under
   admissionMu.RLock while Close sets closed + close(stop) under the write lock (so F4 does not
   exist here); the dispatcher collects adjacent batches (policy MaxItems / MaxWait); Close may be
   configured to cancel accepted items (CancelAcceptedOnClose: the cancel hook runs instead of the
   handler) and/or to cancel the runtime context at once (CancelRunningOnClose).

   Two defects were found by TLC on this transcription and reproduced on the real pool
   (MC_f5.cfg / MC_f6.cfg and the harness scenarios):

   F5  (open, known-findings.json) CancelRunningOnClose without CancelAcceptedOnClose:
       retryExecutor selects on p.ctx.Done(); with the executor saturated at Close the dispatcher
       drops the batch in hand (no handler, no hook), returns false, and dispatch returns without
       draining the queue.  FixF5 = FALSE is the code as it is; TRUE the candidate repair (keep
       retrying until the executor accepts unless the Close context expired).
   F6  (fixed by /repo commit 294b0250e) CancelAcceptedOnClose: when submitToExecutor gave up (closed
       seen at the loop top or in retryExecutor) it cancelled the batch in hand and returned false;
       dispatch then returned WITHOUT cancelQueued(): items still queued were neither handled nor
       cancelled.  FixF6 = TRUE is the code as it is now (cancelQueued() before giving up);
       FALSE the code before the fix. *)
EXTENDS WorkQueue, TLC

CONSTANTS NP, ItemsPer, QueueSize, Workers,
          MaxItems,        \* policy: BatchOptions.MaxItems (already capped by QueueSize)
          MaxWait,         \* policy: BatchOptions.MaxWait > 0
          CloseModes,      \* set of <<CancelAcceptedOnClose, CancelRunningOnClose>> pairs, one chosen at Init
          FixF5, FixF6

Producers == 1..NP
Items     == 1..(NP * ItemsPer)

\* close configurations for the cfg files (CloseModes <- ...)
ModesAll            == BOOLEAN \X BOOLEAN
ModeCancelRunning   == {<<FALSE, TRUE>>}           \* the configuration of the still-open finding F5
ModesButF5          == ModesAll \ ModeCancelRunning
ModesCancelAccepted == {TRUE} \X BOOLEAN

VARIABLES
  CancelAccepted, CancelRunning,   \* this instance's close options (fixed at Init)
  closed, stop, ctxc,     \* p.closed, p.stop closed, p.ctx cancelled
  slots, queue,
  ppc, pk,
  dpc, dmode, dbatch,     \* dispatcher: pc, "run" (dispatch) | "drain" (drainQueue), batch in hand
  exec,                   \* set of batches accepted by ants and not finished
  cpc,
  res, runs, canc, fin, closeRet

vars == <<CancelAccepted, CancelRunning, closed, stop, ctxc, slots, queue, ppc, pk, dpc, dmode, dbatch, exec, cpc,
          res, runs, canc, fin, closeRet>>
hist == <<res, runs, canc, fin, closeRet>>

ItemOf(p) == (p - 1) * ItemsPer + pk[p]
Range(s)  == {s[k] : k \in 1..Len(s)}

Init ==
  /\ \E m \in CloseModes : CancelAccepted = m[1] /\ CancelRunning = m[2]
  /\ closed = FALSE /\ stop = FALSE /\ ctxc = FALSE /\ slots = 0 /\ queue = <<>>
  /\ ppc = [p \in Producers |-> "idle"] /\ pk = [p \in Producers |-> 1]
  /\ dpc = "loop" /\ dmode = "run" /\ dbatch = <<>> /\ exec = {}
  /\ cpc = "idle"
  /\ res = [i \in Items |-> "none"] /\ runs = [i \in Items |-> 0] /\ canc = [i \in Items |-> 0]
  /\ fin = {} /\ closeRet = FALSE

\* ---- Submit --------------------------------------------------------------------------
Return(p, code) ==
  /\ res' = [res EXCEPT ![ItemOf(p)] = code]
  /\ ppc' = [ppc EXCEPT ![p] = "idle"]
  /\ pk'  = [pk EXCEPT ![p] = @ + 1]

Release(n) == slots' = IF slots >= n THEN slots - n ELSE 0

\* if p.closed.Load() { return ErrClosed }
P_Check(p) ==
  /\ ppc[p] = "idle" /\ pk[p] <= ItemsPer
  /\ IF closed
       THEN Return(p, "closed")
       ELSE ppc' = [ppc EXCEPT ![p] = "slot"] /\ UNCHANGED <<res, pk>>
  /\ UNCHANGED <<CancelAccepted, CancelRunning, closed, stop, ctxc, slots, queue, dpc, dmode, dbatch, exec, cpc, runs, canc, fin, closeRet>>

\* acquireSlot: select { slots <- {} ; <-stop ; default: ErrFull }
P_Slot(p) ==
  /\ ppc[p] = "slot"
  /\ \/ /\ slots < QueueSize
        /\ slots' = slots + 1 /\ ppc' = [ppc EXCEPT ![p] = "enq"] /\ UNCHANGED <<res, pk>>
     \/ /\ stop
        /\ Return(p, "closed") /\ UNCHANGED slots
     \/ /\ slots >= QueueSize /\ ~stop
        /\ Return(p, "full") /\ UNCHANGED slots
  /\ UNCHANGED <<CancelAccepted, CancelRunning, closed, stop, ctxc, queue, dpc, dmode, dbatch, exec, cpc, runs, canc, fin, closeRet>>

\* admissionMu.RLock(); if closed { release; ErrClosed }; select { queue <- task ; ... }
\* (under the read lock ~closed implies ~stop, and a reserved slot implies room in the queue)
P_Enq(p) ==
  /\ ppc[p] = "enq"
  /\ IF closed
       THEN Release(1) /\ Return(p, "closed") /\ UNCHANGED queue
       ELSE queue' = Append(queue, ItemOf(p)) /\ Return(p, "ok") /\ UNCHANGED slots
  /\ UNCHANGED <<CancelAccepted, CancelRunning, closed, stop, ctxc, dpc, dmode, dbatch, exec, cpc, runs, canc, fin, closeRet>>

\* ---- dispatcher ------------------------------------------------------------------------
ShouldCancel == CancelAccepted /\ closed          \* shouldCancelAccepted()

\* cancelTasks(b): releaseSlots(len(b)); CancelAccepted hook for each item
CancelBatch(b) ==
  /\ Release(Len(b))
  /\ canc' = [i \in Items |-> IF i \in Range(b) THEN canc[i] + 1 ELSE canc[i]]

\* for { select { task := <-queue ; <-stop } }
D_Select ==
  /\ dpc = "loop"
  /\ \/ /\ queue # <<>>
        /\ dbatch' = <<Head(queue)>> /\ queue' = Tail(queue) /\ dpc' = "got" /\ UNCHANGED dmode
     \/ /\ stop
        /\ IF CancelAccepted
             THEN dpc' = "cancelq" /\ UNCHANGED dmode        \* cancelQueued(); return
             ELSE dpc' = "drain" /\ dmode' = "drain"          \* drainQueue(); return
        /\ UNCHANGED <<dbatch, queue>>
  /\ UNCHANGED <<CancelAccepted, CancelRunning, closed, stop, ctxc, slots, ppc, pk, exec, cpc, hist>>

\* if shouldCancelAccepted() { cancelTasks([task]); cancelQueued(); return }
D_Got ==
  /\ dpc = "got"
  /\ IF ShouldCancel
       THEN CancelBatch(dbatch) /\ dbatch' = <<>> /\ dpc' = "cancelq"
       ELSE dpc' = "collect" /\ UNCHANGED <<dbatch, slots, canc>>
  /\ UNCHANGED <<CancelAccepted, CancelRunning, closed, stop, ctxc, queue, ppc, pk, dmode, exec, cpc, res, runs, fin, closeRet>>

\* drainQueue: for { select { task := <-queue ; default: return } }
D_Drain ==
  /\ dpc = "drain"
  /\ IF queue # <<>>
       THEN dbatch' = <<Head(queue)>> /\ queue' = Tail(queue) /\ dpc' = "collect"
       ELSE dpc' = "exit" /\ UNCHANGED <<dbatch, queue>>
  /\ UNCHANGED <<CancelAccepted, CancelRunning, closed, stop, ctxc, slots, ppc, pk, dmode, exec, cpc, hist>>

\* collectBatch: drainReadyInto (one receive per step), then maybe wait for one peer
D_Collect ==
  /\ dpc \in {"collect", "collect2"}
  /\ IF Len(dbatch) < MaxItems /\ queue # <<>>
       THEN dbatch' = Append(dbatch, Head(queue)) /\ queue' = Tail(queue) /\ UNCHANGED dpc
       ELSE /\ UNCHANGED <<dbatch, queue>>
            /\ dpc' = IF dpc = "collect2" \/ Len(dbatch) >= MaxItems \/ ~MaxWait \/ closed
                        THEN "post" ELSE "wait"
  /\ UNCHANGED <<CancelAccepted, CancelRunning, closed, stop, ctxc, slots, ppc, pk, dmode, exec, cpc, hist>>

\* select { next := <-queue ; <-timer.C ; <-stop ; <-ctx.Done() }   (the timer may always fire)
D_Wait ==
  /\ dpc = "wait"
  /\ \/ /\ queue # <<>>
        /\ dbatch' = Append(dbatch, Head(queue)) /\ queue' = Tail(queue)
     \/ UNCHANGED <<dbatch, queue>>
  /\ dpc' = "collect2"
  /\ UNCHANGED <<CancelAccepted, CancelRunning, closed, stop, ctxc, slots, ppc, pk, dmode, exec, cpc, hist>>

\* dispatch only: if shouldCancelAccepted() { cancelTasks(batch); cancelQueued(); return }
D_Post ==
  /\ dpc = "post"
  /\ IF dmode = "run" /\ ShouldCancel
       THEN CancelBatch(dbatch) /\ dbatch' = <<>> /\ dpc' = "cancelq"
       ELSE dpc' = "exec" /\ UNCHANGED <<dbatch, slots, canc>>
  /\ UNCHANGED <<CancelAccepted, CancelRunning, closed, stop, ctxc, queue, ppc, pk, dmode, exec, cpc, res, runs, fin, closeRet>>

\* submitToExecutor returned false: dispatch (or drainQueue, then dispatch) returns.
\* FixF6: cancelQueued() first when accepted work is to be cancelled.
GiveUp == dpc' = IF FixF6 /\ ShouldCancel THEN "cancelq" ELSE "exit"

\* submitToExecutor loop: if shouldCancelAccepted() { cancelTasks(batch); return false }
\*   extendBatchReady; taskWG.Add(1); pool.Invoke(batch): ok -> releaseSlots; overload -> retry
D_Exec ==
  /\ dpc = "exec"
  /\ IF ShouldCancel
       THEN /\ CancelBatch(dbatch) /\ dbatch' = <<>> /\ GiveUp
            /\ UNCHANGED <<queue, exec>>
       ELSE LET room  == MaxItems - Len(dbatch)
                n     == IF room < Len(queue) THEN room ELSE Len(queue)
                ext   == dbatch \o SubSeq(queue, 1, n)        \* extendBatchReady
            IN /\ queue' = SubSeq(queue, n + 1, Len(queue))
               /\ UNCHANGED canc
               /\ IF Cardinality(exec) < Workers
                    THEN /\ exec' = exec \cup {ext} /\ dbatch' = <<>>
                         /\ Release(Len(ext))
                         /\ dpc' = IF dmode = "run" THEN "loop" ELSE "drain"
                    ELSE /\ dbatch' = ext /\ dpc' = "retry"     \* ErrPoolOverload
                         /\ UNCHANGED <<exec, slots>>
  /\ UNCHANGED <<CancelAccepted, CancelRunning, closed, stop, ctxc, ppc, pk, dmode, cpc, res, runs, fin, closeRet>>

\* retryExecutor
D_Retry ==
  /\ dpc = "retry"
  /\ \/ \* <-timer.C : retry
        /\ dpc' = "exec" /\ UNCHANGED <<dbatch, slots, canc>>
     \/ \* CancelAcceptedOnClose: <-stop : cancelTasks(batch); return false
        /\ CancelAccepted /\ stop
        /\ CancelBatch(dbatch) /\ dbatch' = <<>> /\ GiveUp
     \/ \* <-ctx.Done()
        /\ ctxc
        /\ IF CancelAccepted
             THEN \* (ctx is cancelled only after closed was set, so shouldCancelAccepted() holds)
                  CancelBatch(dbatch) /\ dbatch' = <<>> /\ GiveUp
             ELSE /\ ~FixF5
                  \* releaseSlots(len(batch)); return false   -- the batch is DROPPED (F5)
                  /\ Release(Len(dbatch)) /\ dbatch' = <<>> /\ dpc' = "exit" /\ UNCHANGED canc
  /\ UNCHANGED <<CancelAccepted, CancelRunning, closed, stop, ctxc, queue, ppc, pk, dmode, exec, cpc, res, runs, fin, closeRet>>

\* cancelQueued: for { select { task := <-queue: cancelTasks([task]) ; default: return } }
D_CancelQ ==
  /\ dpc = "cancelq"
  /\ IF queue # <<>>
       THEN CancelBatch(<<Head(queue)>>) /\ queue' = Tail(queue) /\ UNCHANGED dpc
       ELSE dpc' = "exit" /\ UNCHANGED <<queue, slots, canc>>
  /\ UNCHANGED <<CancelAccepted, CancelRunning, closed, stop, ctxc, ppc, pk, dmode, dbatch, exec, cpc, res, runs, fin, closeRet>>

\* runBatch on an ants worker: handler(ctx, items); taskWG.Done()
RunBatch(b) ==
  /\ b \in exec
  /\ exec' = exec \ {b}
  /\ runs' = [i \in Items |-> IF i \in Range(b) THEN runs[i] + 1 ELSE runs[i]]
  /\ fin' = fin \cup Range(b)
  /\ UNCHANGED <<CancelAccepted, CancelRunning, closed, stop, ctxc, slots, queue, ppc, pk, dpc, dmode, dbatch, cpc, res, canc, closeRet>>

\* ---- Close -------------------------------------------------------------------------------
\* admissionMu.Lock(); closed.Store(true); close(stop); admissionMu.Unlock()
C_Close ==
  /\ cpc = "idle"
  /\ closed' = TRUE /\ stop' = TRUE
  /\ cpc' = IF CancelRunning THEN "cancel" ELSE "wait"
  /\ UNCHANGED <<CancelAccepted, CancelRunning, ctxc, slots, queue, ppc, pk, dpc, dmode, dbatch, exec, hist>>

\* if cfg.CancelRunningOnClose { p.cancel() }
C_Cancel ==
  /\ cpc = "cancel"
  /\ ctxc' = TRUE /\ cpc' = "wait"
  /\ UNCHANGED <<CancelAccepted, CancelRunning, closed, stop, slots, queue, ppc, pk, dpc, dmode, dbatch, exec, hist>>

\* dispatchWG.Wait(); taskWG.Wait(); release; return nil
C_Wait ==
  /\ cpc = "wait"
  /\ dpc = "exit" /\ exec = {}
  /\ cpc' = "ret" /\ closeRet' = TRUE
  /\ UNCHANGED <<CancelAccepted, CancelRunning, closed, stop, ctxc, slots, queue, ppc, pk, dpc, dmode, dbatch, exec, res, runs, canc, fin>>

ProducersDone == \A p \in Producers : pk[p] > ItemsPer /\ ppc[p] = "idle"
Terminated == ProducersDone /\ cpc = "ret" /\ dpc = "exit" /\ exec = {}

Next ==
  \/ \E p \in Producers : P_Check(p) \/ P_Slot(p) \/ P_Enq(p)
  \/ D_Select \/ D_Got \/ D_Drain \/ D_Collect \/ D_Wait \/ D_Post \/ D_Exec \/ D_Retry \/ D_CancelQ
  \/ \E b \in exec : RunBatch(b)
  \/ C_Close \/ C_Cancel \/ C_Wait
  \/ (Terminated /\ UNCHANGED vars)

Spec == Init /\ [][Next]_vars

\* ---- properties --------------------------------------------------------------------------
TypeOK ==
  /\ closed \in BOOLEAN /\ stop \in BOOLEAN /\ ctxc \in BOOLEAN /\ slots \in 0..QueueSize
  /\ Len(queue) <= QueueSize /\ Len(dbatch) <= MaxItems
  /\ res \in [Items -> Codes] /\ runs \in [Items -> 0..2] /\ canc \in [Items -> 0..2]
  /\ fin \subseteq Items

C37_AtMostOnce        == AtMostOnce(Items, runs, canc)
C37_RejectedNeverRuns == RejectedNeverRuns(Items, res, runs, canc)
C37_OnlyAdmittedRuns  == \A i \in Items : runs[i] + canc[i] > 0 => res[i] = "ok"
C37_CancelOnlyIfConfigured == CancelOnlyIfConfigured(Items, CancelAccepted, canc)
C37_CancelOnlyAfterClose   == \A i \in Items : canc[i] > 0 => closed
C37_CloseWaits        == CloseWaits(Items, closeRet, res, fin, canc)
SlotsCoverQueue       == Len(queue) + Len(dbatch) <= slots
===============================================================================

\* ShardedMailbox as the code is (FixF3): 3 producers x 1 Submit, 2 shards, 1 slot per shard, ONE worker (executor overload), batches of up to 2.
SPECIFICATION Spec
CONSTANTS
  NP = 3
  ItemsPer = 1
  Shards = 2
  QueueSize = 1
  Workers = 1
  BatchMax = 2
  FixF3 = TRUE
  ReschedKeepsFlag = TRUE
INVARIANTS TypeOK C37_AtMostOnce C37_RejectedNeverRuns C37_OnlyAdmittedRuns C37_CloseWaits C37_NoOverlap C37_Order OneDrainPerShard
CHECK_DEADLOCK TRUE

\* BoundedBatchPool AS IT IS for CancelRunningOnClose only: TLC finds the open finding F5 - invariant C37_CloseWaits is violated.
SPECIFICATION Spec
CONSTANTS
  NP = 2
  ItemsPer = 2
  QueueSize = 2
  Workers = 1
  MaxItems = 1
  MaxWait = TRUE
  CloseModes <- ModeCancelRunning
  FixF5 = FALSE
  FixF6 = TRUE
INVARIANTS TypeOK C37_AtMostOnce C37_RejectedNeverRuns C37_OnlyAdmittedRuns C37_CancelOnlyIfConfigured C37_CancelOnlyAfterClose C37_CloseWaits SlotsCoverQueue
CHECK_DEADLOCK TRUE

\* ShardedMailbox as the code is (FixF3): 2 producers x 2 Submit, 2 shards (every placement), 2 slots per shard, 2 workers, batches of up to 2, Close anywhere.
SPECIFICATION Spec
CONSTANTS
  NP = 2
  ItemsPer = 2
  Shards = 2
  QueueSize = 2
  Workers = 2
  BatchMax = 2
  FixF3 = TRUE
  ReschedKeepsFlag = TRUE
INVARIANTS TypeOK C37_AtMostOnce C37_RejectedNeverRuns C37_OnlyAdmittedRuns C37_CloseWaits C37_NoOverlap C37_Order OneDrainPerShard
CHECK_DEADLOCK TRUE

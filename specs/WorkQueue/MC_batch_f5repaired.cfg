\* BoundedBatchPool, CancelRunningOnClose only, with the CANDIDATE repair of the open finding F5 (FixF5): 2 producers x 2 Submit, QueueSize 2, 1 worker, batches of 2 with MaxWait.
SPECIFICATION Spec
CONSTANTS
  NP = 2
  ItemsPer = 2
  QueueSize = 2
  Workers = 1
  MaxItems = 2
  MaxWait = TRUE
  CloseModes <- ModeCancelRunning
  FixF5 = TRUE
  FixF6 = TRUE
INVARIANTS TypeOK C37_AtMostOnce C37_RejectedNeverRuns C37_OnlyAdmittedRuns C37_CancelOnlyIfConfigured C37_CancelOnlyAfterClose C37_CloseWaits SlotsCoverQueue
CHECK_DEADLOCK TRUE

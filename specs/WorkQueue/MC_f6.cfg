\* BoundedBatchPool BEFORE /repo commit 294b0250e (FixF6 = FALSE), CancelAcceptedOnClose: TLC finds F6 - invariant C37_CloseWaits is violated (14 states).
SPECIFICATION Spec
CONSTANTS
  NP = 2
  ItemsPer = 2
  QueueSize = 2
  Workers = 1
  MaxItems = 1
  MaxWait = TRUE
  CloseModes <- ModesCancelAccepted
  FixF5 = TRUE
  FixF6 = FALSE
INVARIANTS TypeOK C37_AtMostOnce C37_RejectedNeverRuns C37_OnlyAdmittedRuns C37_CancelOnlyIfConfigured C37_CancelOnlyAfterClose C37_CloseWaits SlotsCoverQueue
CHECK_DEADLOCK TRUE

SPECIFICATION TraceSpec
CONSTRAINT Track
INVARIANTS C37_AtMostOnce C37_RejectedNeverRuns C37_OnlySubmittedRuns C37_CancelOnlyIfConfigured C37_CloseWaits C37_NoOverlap C37_Order WellFormed
POSTCONDITION Accepted
CHECK_DEADLOCK FALSE

\* BoundedPool as the code is (admission lock, FixF4): 3 producers x 2 Submit/SubmitWait, QueueSize 2, 2 workers, Close anywhere.
SPECIFICATION Spec
CONSTANTS
  NP = 3
  ItemsPer = 2
  QueueSize = 2
  Workers = 2
  WaitSet = {TRUE, FALSE}
  FixF4 = TRUE
INVARIANTS TypeOK C37_AtMostOnce C37_RejectedNeverRuns C37_OnlyAdmittedRuns C37_CloseWaits SlotsCoverQueue
CHECK_DEADLOCK TRUE

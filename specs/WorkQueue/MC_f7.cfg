\* ShardedMailbox with finishShardDrain re-invoking WITHOUT setting `scheduled` again (ReschedKeepsFlag = FALSE; not the code as it is): TLC finds two drains of one shard - invariant C37_Order is violated after 20 states, C37_NoOverlap (checked alone) after 21. Not registered (fails by design); its counterexample is the gated schedule "mailbox-resched-overlap".
SPECIFICATION Spec
CONSTANTS
  NP = 1
  ItemsPer = 3
  Shards = 1
  QueueSize = 2
  Workers = 2
  BatchMax = 1
  FixF3 = TRUE
  ReschedKeepsFlag = FALSE
INVARIANTS C37_NoOverlap C37_Order
CHECK_DEADLOCK TRUE

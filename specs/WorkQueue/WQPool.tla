-------------------------------- MODULE WQPool --------------------------------
(* BoundedPool (pkg/workqueue/bounded_pool.go), transcribed step by step.

   Goroutines: producers calling Submit / SubmitWait, the dispatcher (dispatch, drainQueue,
   submitToExecutor), the ants executor (at most Workers tasks in flight, Invoke is
   non-blocking and answers ErrPoolOverload when saturated), one caller of Close.

   One action per atomic step of the code (a channel operation, an atomic load/store, a
   WaitGroup wait).  The caller context never expires and Close is given a context that does
   not expire (the property speaks of Close returning nil).

   FixF4 = TRUE is the code as it is now (/repo commit 3996f0eab: the admissionMu pattern of
   BoundedBatchPool - re-check `closed` and enqueue under a read lock, Close sets closed +
   close(stop) under the write lock).  FixF4 = FALSE is the code before the fix: Submit read
   `closed` WITHOUT an admission lock and later selected on `queue <- task` and `<-stop`; when Close
   ran in between both cases were ready and Go picks one at random (finding F4, MC_f4.cfg). *)
EXTENDS WorkQueue, TLC

CONSTANTS NP,         \* number of producers
          ItemsPer,   \* Submit calls per producer
          QueueSize,  \* cfg.QueueSize
          Workers,    \* cfg.Workers
          WaitSet,    \* subset of BOOLEAN: TRUE = producers use SubmitWait (chosen at Init)
          FixF4

Producers == 1..NP
Items     == 1..(NP * ItemsPer)

VARIABLES
  Wait,     \* this instance's producers use SubmitWait (fixed at Init)
  closed,   \* p.closed (atomic.Bool)
  stop,     \* p.stop is closed
  slots,    \* len(p.slots)
  queue,    \* p.queue (buffered channel, capacity QueueSize)
  ppc, pk,  \* producer: program counter, index of the current Submit call
  dpc, dtask, \* dispatcher: program counter, task in hand
  exec,     \* tasks accepted by ants and not finished (taskWG counter = Cardinality(exec))
  cpc,      \* Close: program counter
  res, runs, fin, closeRet   \* history (see WorkQueue.tla)

vars == <<Wait, closed, stop, slots, queue, ppc, pk, dpc, dtask, exec, cpc, res, runs, fin, closeRet>>

ItemOf(p) == (p - 1) * ItemsPer + pk[p]
NoCancel  == [i \in Items |-> 0]

Init ==
  /\ Wait \in WaitSet
  /\ closed = FALSE /\ stop = FALSE /\ slots = 0 /\ queue = <<>>
  /\ ppc = [p \in Producers |-> "idle"] /\ pk = [p \in Producers |-> 1]
  /\ dpc = "loop" /\ dtask = 0 /\ exec = {}
  /\ cpc = "idle"
  /\ res = [i \in Items |-> "none"] /\ runs = [i \in Items |-> 0] /\ fin = {} /\ closeRet = FALSE

\* ---- Submit --------------------------------------------------------------------------
Return(p, code) ==
  /\ res' = [res EXCEPT ![ItemOf(p)] = code]
  /\ ppc' = [ppc EXCEPT ![p] = "idle"]
  /\ pk'  = [pk EXCEPT ![p] = @ + 1]

\* if p.closed.Load() { return ErrClosed }
P_Check(p) ==
  /\ ppc[p] = "idle" /\ pk[p] <= ItemsPer
  /\ IF closed
       THEN Return(p, "closed")
       ELSE ppc' = [ppc EXCEPT ![p] = "slot"] /\ UNCHANGED <<res, pk>>
  /\ UNCHANGED <<Wait, closed, stop, slots, queue, dpc, dtask, exec, cpc, runs, fin, closeRet>>

\* acquireSlot: select { slots <- {} ; <-stop ; [default: ErrFull | wait] }
P_Slot(p) ==
  /\ ppc[p] = "slot"
  /\ \/ /\ slots < QueueSize
        /\ slots' = slots + 1
        /\ ppc' = [ppc EXCEPT ![p] = "enq"]
        /\ UNCHANGED <<res, pk>>
     \/ /\ stop
        /\ Return(p, "closed") /\ UNCHANGED slots
     \/ /\ slots >= QueueSize /\ ~stop /\ ~Wait
        /\ Return(p, "full") /\ UNCHANGED slots
  /\ UNCHANGED <<Wait, closed, stop, queue, dpc, dtask, exec, cpc, runs, fin, closeRet>>

Release(n) == slots' = IF slots >= n THEN slots - n ELSE 0

\* select { queue <- task ; <-stop ; default: ErrFull }
P_Enq(p) ==
  /\ ppc[p] = "enq"
  /\ IF FixF4
       THEN \* under admissionMu.RLock: if closed { release; ErrClosed } else enqueue
            IF closed
              THEN Release(1) /\ Return(p, "closed") /\ UNCHANGED queue
              ELSE queue' = Append(queue, ItemOf(p)) /\ Return(p, "ok") /\ UNCHANGED slots
       ELSE \/ /\ Len(queue) < QueueSize
               /\ queue' = Append(queue, ItemOf(p)) /\ Return(p, "ok") /\ UNCHANGED slots
            \/ /\ stop
               /\ Release(1) /\ Return(p, "closed") /\ UNCHANGED queue
            \/ /\ Len(queue) >= QueueSize /\ ~stop
               /\ Release(1) /\ Return(p, "full") /\ UNCHANGED queue
  /\ UNCHANGED <<Wait, closed, stop, dpc, dtask, exec, cpc, runs, fin, closeRet>>

\* ---- dispatcher ------------------------------------------------------------------------
\* for { select { task := <-queue ; <-stop: drainQueue(); return } }
D_Select ==
  /\ dpc = "loop"
  /\ \/ /\ queue # <<>>
        /\ dtask' = Head(queue) /\ queue' = Tail(queue) /\ dpc' = "exec"
     \/ /\ stop
        /\ dpc' = "drain" /\ UNCHANGED <<dtask, queue>>
  /\ UNCHANGED <<Wait, closed, stop, slots, ppc, pk, exec, cpc, res, runs, fin, closeRet>>

\* drainQueue: for { select { task := <-queue ; default: return } }
D_Drain ==
  /\ dpc = "drain"
  /\ IF queue # <<>>
       THEN dtask' = Head(queue) /\ queue' = Tail(queue) /\ dpc' = "drainexec"
       ELSE dpc' = "exit" /\ UNCHANGED <<dtask, queue>>
  /\ UNCHANGED <<Wait, closed, stop, slots, ppc, pk, exec, cpc, res, runs, fin, closeRet>>

\* submitToExecutor: taskWG.Add(1); pool.Invoke(task) succeeds when a worker is free
\* (then releaseSlots(1)); ErrPoolOverload: taskWG.Done(), sleep, retry (= not enabled here).
D_Exec ==
  /\ dpc \in {"exec", "drainexec"}
  /\ Cardinality(exec) < Workers
  /\ exec' = exec \cup {dtask}
  /\ Release(1)
  /\ dtask' = 0
  /\ dpc' = IF dpc = "exec" THEN "loop" ELSE "drain"
  /\ UNCHANGED <<Wait, closed, stop, queue, ppc, pk, cpc, res, runs, fin, closeRet>>

\* runTask on an ants worker: handler(ctx, item); taskWG.Done()
RunTask(i) ==
  /\ i \in exec
  /\ exec' = exec \ {i}
  /\ runs' = [runs EXCEPT ![i] = @ + 1]
  /\ fin' = fin \cup {i}
  /\ UNCHANGED <<Wait, closed, stop, slots, queue, ppc, pk, dpc, dtask, cpc, res, closeRet>>

\* ---- Close -------------------------------------------------------------------------------
\* p.closed.Store(true)            (FixF4: closed and close(stop) in one critical section)
C_Closed ==
  /\ cpc = "idle"
  /\ closed' = TRUE
  /\ IF FixF4 THEN stop' = TRUE /\ cpc' = "wait" ELSE cpc' = "stop" /\ UNCHANGED stop
  /\ UNCHANGED <<Wait, slots, queue, ppc, pk, dpc, dtask, exec, res, runs, fin, closeRet>>

\* close(p.stop)
C_Stop ==
  /\ cpc = "stop"
  /\ stop' = TRUE /\ cpc' = "wait"
  /\ UNCHANGED <<Wait, closed, slots, queue, ppc, pk, dpc, dtask, exec, res, runs, fin, closeRet>>

\* dispatchWG.Wait(); taskWG.Wait(); release the executor; return nil
C_Wait ==
  /\ cpc = "wait"
  /\ dpc = "exit" /\ exec = {}
  /\ cpc' = "ret" /\ closeRet' = TRUE
  /\ UNCHANGED <<Wait, closed, stop, slots, queue, ppc, pk, dpc, dtask, exec, res, runs, fin>>

ProducersDone == \A p \in Producers : pk[p] > ItemsPer /\ ppc[p] = "idle"
Terminated == ProducersDone /\ cpc = "ret" /\ dpc = "exit" /\ exec = {}

Next ==
  \/ \E p \in Producers : P_Check(p) \/ P_Slot(p) \/ P_Enq(p)
  \/ D_Select \/ D_Drain \/ D_Exec
  \/ \E i \in Items : RunTask(i)
  \/ C_Closed \/ C_Stop \/ C_Wait
  \/ (Terminated /\ UNCHANGED vars)

Spec == Init /\ [][Next]_vars

\* ---- properties --------------------------------------------------------------------------
TypeOK ==
  /\ closed \in BOOLEAN /\ stop \in BOOLEAN /\ slots \in 0..QueueSize
  /\ Len(queue) <= QueueSize
  /\ res \in [Items -> Codes] /\ runs \in [Items -> 0..2] /\ fin \subseteq Items

C37_AtMostOnce        == AtMostOnce(Items, runs, NoCancel)
C37_RejectedNeverRuns == RejectedNeverRuns(Items, res, runs, NoCancel)
C37_OnlyAdmittedRuns  == \A i \in Items : runs[i] > 0 => res[i] = "ok"
C37_CloseWaits        == CloseWaits(Items, closeRet, res, fin, NoCancel)
\* bookkeeping the admission bound rests on: queued tasks never exceed reserved slots
SlotsCoverQueue       == Len(queue) <= slots
===============================================================================

\* BoundedWorkerQueue: 2 producers x 2 Submit/SubmitWait, QueueSize 1, 2 workers, Close anywhere.
SPECIFICATION Spec
CONSTANTS
  NP = 2
  ItemsPer = 2
  QueueSize = 1
  Workers = 2
  WaitSet = {TRUE, FALSE}
INVARIANTS TypeOK C37_AtMostOnce C37_RejectedNeverRuns C37_OnlyAdmittedRuns C37_CloseWaits RoomForSlot
CHECK_DEADLOCK TRUE

-------------------------------- MODULE WQWorker --------------------------------
(* BoundedWorkerQueue (pkg/workqueue/bounded_worker_queue.go), transcribed step by step.

   `slots` holds FREE slots here (pre-filled channel).  Submit validates `closed`, takes a free
   slot and enqueues in ONE critical section of q.mu; Close sets closed + close(stop) under q.mu.
   Workers are direct goroutines: select { item := <-queue ; <-stop: drain(); return }. *)
EXTENDS WorkQueue, TLC

CONSTANTS NP, ItemsPer, QueueSize, Workers,
          WaitSet       \* subset of BOOLEAN: TRUE = producers use SubmitWait (chosen at Init)

Producers == 1..NP
Items     == 1..(NP * ItemsPer)
WS        == 1..Workers

VARIABLES
  Wait,              \* this instance's producers use SubmitWait (fixed at Init)
  closed, stop,      \* q.closed (under q.mu), q.stop closed
  free, queue,       \* len(q.slots) = free slots, q.queue
  ppc, pk,
  wpc, wmode, witem, \* worker: pc, "run" | "drain", item in hand
  cpc,
  res, runs, fin, closeRet

vars == <<Wait, closed, stop, free, queue, ppc, pk, wpc, wmode, witem, cpc, res, runs, fin, closeRet>>

ItemOf(p) == (p - 1) * ItemsPer + pk[p]
NoCancel  == [i \in Items |-> 0]

Init ==
  /\ Wait \in WaitSet
  /\ closed = FALSE /\ stop = FALSE /\ free = QueueSize /\ queue = <<>>
  /\ ppc = [p \in Producers |-> "idle"] /\ pk = [p \in Producers |-> 1]
  /\ wpc = [w \in WS |-> "loop"] /\ wmode = [w \in WS |-> "run"] /\ witem = [w \in WS |-> 0]
  /\ cpc = "idle"
  /\ res = [i \in Items |-> "none"] /\ runs = [i \in Items |-> 0] /\ fin = {} /\ closeRet = FALSE

Return(p, code) ==
  /\ res' = [res EXCEPT ![ItemOf(p)] = code]
  /\ ppc' = [ppc EXCEPT ![p] = "idle"]
  /\ pk'  = [pk EXCEPT ![p] = @ + 1]

\* q.mu.Lock(); if closed -> ErrClosed; select { <-slots: enqueueWithSlotLocked ; default }
\* !wait -> ErrFull ; wait -> unlock and block on slots/stop
Q_Submit(p) ==
  /\ ppc[p] = "idle" /\ pk[p] <= ItemsPer
  /\ IF closed THEN Return(p, "closed") /\ UNCHANGED <<Wait, free, queue>>
     ELSE IF free > 0
       THEN /\ free' = free - 1
            /\ queue' = Append(queue, ItemOf(p))     \* room is implied by the free slot
            /\ Return(p, "ok")
       ELSE /\ UNCHANGED <<Wait, free, queue>>
            /\ IF Wait THEN ppc' = [ppc EXCEPT ![p] = "wait"] /\ UNCHANGED <<res, pk>>
                       ELSE Return(p, "full")
  /\ UNCHANGED <<Wait, closed, stop, wpc, wmode, witem, cpc, runs, fin, closeRet>>

\* select { <-slots ; <-stop: ErrClosed }
Q_WaitSel(p) ==
  /\ ppc[p] = "wait"
  /\ \/ /\ free > 0 /\ free' = free - 1
        /\ ppc' = [ppc EXCEPT ![p] = "relock"] /\ UNCHANGED <<res, pk>>
     \/ /\ stop /\ Return(p, "closed") /\ UNCHANGED free
  /\ UNCHANGED <<Wait, closed, stop, queue, wpc, wmode, witem, cpc, runs, fin, closeRet>>

\* q.mu.Lock(); if closed { unlock; releaseSlot; ErrClosed }; enqueueWithSlotLocked
Q_Relock(p) ==
  /\ ppc[p] = "relock"
  /\ IF closed
       THEN free' = (IF free < QueueSize THEN free + 1 ELSE free) /\ Return(p, "closed") /\ UNCHANGED queue
       ELSE queue' = Append(queue, ItemOf(p)) /\ Return(p, "ok") /\ UNCHANGED free
  /\ UNCHANGED <<Wait, closed, stop, wpc, wmode, witem, cpc, runs, fin, closeRet>>

\* runWorker: select { item := <-queue ; <-stop: drain(); return }
W_Select(w) ==
  /\ wpc[w] = "loop"
  /\ \/ /\ queue # <<>>
        /\ witem' = [witem EXCEPT ![w] = Head(queue)] /\ queue' = Tail(queue)
        /\ wpc' = [wpc EXCEPT ![w] = "rel"] /\ UNCHANGED wmode
     \/ /\ stop
        /\ wpc' = [wpc EXCEPT ![w] = "drain"] /\ wmode' = [wmode EXCEPT ![w] = "drain"]
        /\ UNCHANGED <<witem, queue>>
  /\ UNCHANGED <<Wait, closed, stop, free, ppc, pk, cpc, res, runs, fin, closeRet>>

\* drain: for { select { item := <-queue ; default: return } }
W_Drain(w) ==
  /\ wpc[w] = "drain"
  /\ IF queue # <<>>
       THEN /\ witem' = [witem EXCEPT ![w] = Head(queue)] /\ queue' = Tail(queue)
            /\ wpc' = [wpc EXCEPT ![w] = "rel"]
       ELSE wpc' = [wpc EXCEPT ![w] = "exit"] /\ UNCHANGED <<witem, queue>>
  /\ UNCHANGED <<Wait, closed, stop, free, ppc, pk, wmode, cpc, res, runs, fin, closeRet>>

\* releaseSlot()
W_Release(w) ==
  /\ wpc[w] = "rel"
  /\ free' = IF free < QueueSize THEN free + 1 ELSE free
  /\ wpc' = [wpc EXCEPT ![w] = "run"]
  /\ UNCHANGED <<Wait, closed, stop, queue, ppc, pk, wmode, witem, cpc, res, runs, fin, closeRet>>

\* runItem: handler(ctx, item)
W_Run(w) ==
  /\ wpc[w] = "run"
  /\ runs' = [runs EXCEPT ![witem[w]] = @ + 1]
  /\ fin' = fin \cup {witem[w]}
  /\ witem' = [witem EXCEPT ![w] = 0]
  /\ wpc' = [wpc EXCEPT ![w] = IF wmode[w] = "run" THEN "loop" ELSE "drain"]
  /\ UNCHANGED <<Wait, closed, stop, free, queue, ppc, pk, wmode, cpc, res, closeRet>>

\* q.mu.Lock(); closed = true; close(stop); q.mu.Unlock()
C_Close ==
  /\ cpc = "idle"
  /\ closed' = TRUE /\ stop' = TRUE /\ cpc' = "wait"
  /\ UNCHANGED <<Wait, free, queue, ppc, pk, wpc, wmode, witem, res, runs, fin, closeRet>>

\* workerWG.Wait(); return nil
C_Wait ==
  /\ cpc = "wait"
  /\ \A w \in WS : wpc[w] = "exit"
  /\ cpc' = "ret" /\ closeRet' = TRUE
  /\ UNCHANGED <<Wait, closed, stop, free, queue, ppc, pk, wpc, wmode, witem, res, runs, fin>>

ProducersDone == \A p \in Producers : pk[p] > ItemsPer /\ ppc[p] = "idle"
Terminated == ProducersDone /\ cpc = "ret"

Next ==
  \/ \E p \in Producers : Q_Submit(p) \/ Q_WaitSel(p) \/ Q_Relock(p)
  \/ \E w \in WS : W_Select(w) \/ W_Drain(w) \/ W_Release(w) \/ W_Run(w)
  \/ C_Close \/ C_Wait
  \/ (Terminated /\ UNCHANGED vars)

Spec == Init /\ [][Next]_vars

TypeOK ==
  /\ closed \in BOOLEAN /\ stop \in BOOLEAN /\ free \in 0..QueueSize /\ Len(queue) <= QueueSize
  /\ res \in [Items -> Codes] /\ runs \in [Items -> 0..2] /\ fin \subseteq Items

C37_AtMostOnce        == AtMostOnce(Items, runs, NoCancel)
C37_RejectedNeverRuns == RejectedNeverRuns(Items, res, runs, NoCancel)
C37_OnlyAdmittedRuns  == \A i \in Items : runs[i] > 0 => res[i] = "ok"
C37_CloseWaits        == CloseWaits(Items, closeRet, res, fin, NoCancel)
RoomForSlot           == Len(queue) + free <= QueueSize
===============================================================================

\* BoundedPool BEFORE /repo commit 3996f0eab (FixF4 = FALSE): TLC finds F4 - invariant C37_CloseWaits is violated (9 states).
SPECIFICATION Spec
CONSTANTS
  NP = 2
  ItemsPer = 2
  QueueSize = 2
  Workers = 1
  WaitSet = {FALSE}
  FixF4 = FALSE
INVARIANTS TypeOK C37_AtMostOnce C37_RejectedNeverRuns C37_OnlyAdmittedRuns C37_CloseWaits SlotsCoverQueue
CHECK_DEADLOCK TRUE

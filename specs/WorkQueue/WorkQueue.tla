------------------------------ MODULE WorkQueue ------------------------------
(* C37 - "Work queues run each accepted task exactly once".

   Shared vocabulary of the WorkQueue family.  The four primitives of
   /repo/pkg/workqueue have different admission/dispatch/close protocols and are
   transcribed in four protocol modules that EXTEND this one:

     WQPool.tla     BoundedPool          (bounded_pool.go)
     WQBatch.tla    BoundedBatchPool     (bounded_batch_pool.go)
     WQWorker.tla   BoundedWorkerQueue   (bounded_worker_queue.go)
     WQMailbox.tla  ShardedMailbox       (sharded_mailbox.go)

   Trace.tla (validation of histories recorded from the real primitives) EXTENDS
   it as well, so the property formulas evaluated on the protocol models and on
   the recorded histories are literally the same operators.

   History vocabulary (what a caller can observe, and all the property speaks of):
     res[i]   reply of Submit for item i: "none" (not decided yet) | "ok" | "full" | "closed"
     runs[i]  number of handler invocations that contained item i
     canc[i]  number of cancel-hook invocations for item i
     fin      items whose handler invocation has returned
     closeRet Close has returned nil
*)
EXTENDS Integers, Sequences, FiniteSets

Codes == {"none", "ok", "full", "closed"}

\* An admitted item is handled at most once and never both handled and cancelled.
AtMostOnce(I, runs, canc) == \A i \in I : runs[i] + canc[i] <= 1

\* A rejected item never reaches the handler nor the cancel hook.
RejectedNeverRuns(I, res, runs, canc) ==
  \A i \in I : res[i] \in {"full", "closed"} => runs[i] = 0 /\ canc[i] = 0

\* The cancel hook runs only when close was configured to cancel accepted items.
CancelOnlyIfConfigured(I, cancelCfg, canc) == cancelCfg \/ \A i \in I : canc[i] = 0

\* Close returns after admitted work: at (and after) the return of Close every admitted item
\* has been handled to completion or (cancel configured) was given to the cancel hook.  Together
\* with AtMostOnce this is "exactly once"; an admission after Close returned violates it at once.
CloseWaits(I, closeRet, res, fin, canc) ==
  closeRet => \A i \in I : res[i] = "ok" => (i \in fin \/ canc[i] = 1)

\* A mailbox shard never runs two drains (handler invocations) concurrently.
NoOverlap(S, active) == \A s \in S : active[s] <= 1

IsPrefix(a, b) == Len(a) <= Len(b) /\ \A k \in 1..Len(a) : a[k] = b[k]

\* Go's select: one of the ready cases is chosen (uniformly, here: nondeterministically);
\* `default` is taken only if none is ready.  Written out at each use.
===============================================================================

\* BoundedBatchPool as the code is (F6 fixed, F5 open): the three close configurations other than CancelRunningOnClose-only; 2 producers x 2 Submit, QueueSize 2, 1 worker, batches of 2 with MaxWait.
SPECIFICATION Spec
CONSTANTS
  NP = 2
  ItemsPer = 2
  QueueSize = 2
  Workers = 1
  MaxItems = 2
  MaxWait = TRUE
  CloseModes <- ModesButF5
  FixF5 = FALSE
  FixF6 = TRUE
INVARIANTS TypeOK C37_AtMostOnce C37_RejectedNeverRuns C37_OnlyAdmittedRuns C37_CancelOnlyIfConfigured C37_CancelOnlyAfterClose C37_CloseWaits SlotsCoverQueue
CHECK_DEADLOCK TRUE

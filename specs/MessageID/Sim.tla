--------------------------------- MODULE Sim ---------------------------------
(* Behaviour generator (spec -> code).  The real generator cannot be stepped and the
   allocator has no seam between its load and its compare-and-swap, so what can be
   replayed exactly is the behaviour of the module in which calls do not overlap: one
   process, every call runs from Start to End before the next one starts.  The
   generator values of the behaviour are realised by the harness as clock eras (it
   moves the snowflake node's clock to era v before/while the call runs), so the reply
   of every call and the floor after it are determined.

   cfg.gen = "any" behaviours contain clock regressions: a Next then has to go round its
   loop until a generator value above the floor arrives.  The value equal to the
   current floor is excluded (two values of one era cannot be ordered by the harness). *)
EXTENDS MessageID, Json, TLC
CONSTANT Depth
VARIABLE hist

Pick(S) == {RandomElement(S)}

\* Substituted for GenSet in Sim.cfg: small forward jumps, and in "any" mode one
\* randomly drawn value at or below the largest value generated so far.
SimGenSet ==
  IF cfg.gen = "mono" THEN {gen + 1, gen + 2}
  ELSE {gen + 1, gen + 2} \cup (IF (1..gen) \ {floor} = {} THEN {} ELSE Pick((1..gen) \ {floor}))

P == CHOOSE p \in Procs : TRUE

SimInit == Init /\ hist = << [ev |-> ev, st |-> Proj] >>

SimStep ==
  IF pc[P] = "idle"
    THEN \/ Start(P, "Next", 0)
         \/ Start(P, "Next", 0)
         \/ \E f \in Pick(0..(gen + 3)) : Start(P, "SetFloor", f)
         \* aimed: the fence boundaries (equal to the floor, just above it, just above the clock)
         \/ \E f \in Pick({floor, floor + 1, gen, gen + 1, gen + 2}) : Start(P, "SetFloor", f)
         \/ \E f \in Pick({i \in 1..(gen + 1) : i < floor} \cup {0}) : Start(P, "SetFloor", f)
    ELSE Step(P)

SimNext == SimStep /\ hist' = Append(hist, [ev |-> ev', st |-> Proj'])
Emit    == Len(hist) = Depth + 1 =>
             PrintT("BEH " \o ToJson([steps |-> hist]))
===============================================================================

INIT SimInit
NEXT SimNext
CONSTANTS
  NextProcs = {"c1"}
  SetProcs = {"c1"}
  MaxClock = 1000
  FloorArgs = {0}
  MaxCalls = 1000
  GenModes = {"mono", "any"}
  Variant = "code"
  Depth = 40
  GenSet <- SimGenSet
INVARIANT Emit
CHECK_DEADLOCK FALSE

------------------------------ MODULE MessageID ------------------------------
(* Node message-id allocator (internal/app/app.go, type nodeMessageIDs).

     Next():      for { raw := node.Generate(); floor := g.floor.Load()
                        if raw <= floor { continue }
                        if g.floor.CompareAndSwap(floor, raw) { return raw } }
     SetFloor(f): current := g.floor.Load(); if f <= current { return nil }
                  probe := node.Generate(); if probe <= f { return error }
                  for { current = g.floor.Load(); if probe <= current { return nil }
                        if g.floor.CompareAndSwap(current, probe) { return nil } }

   Written directly in TLA+ in PlusCal style (one process per caller, an explicit
   program counter, one action per atomic step: generator call, atomic load with the
   local comparison that follows it, compare-and-swap) so that every action can set
   the observation variable `ev`.

   The generator (bwmarrin/snowflake Node.Generate, serialised by its own mutex) is
   an atomic step.  cfg.gen = "mono": every value it returns is larger than every
   value it returned before (monotonic clock; the clock may jump).  cfg.gen = "any":
   it may return any value (a clock that regresses or repeats) -- the allocator's
   CAS floor is what keeps the property then.

   History variables (retIds, sumRet, maxRet, maxFence, snap) record what the callers
   observed; they are changed only by Start and End.  Property C30 speaks about them
   only, so a recorded history of Start/End events can be checked against this module
   with the steps in between treated as internal (Trace.tla).

   Variant # "code" selects a named mistake; used for design-time mutation rehearsal
   only (every shipped cfg has Variant = "code"). *)
EXTENDS Integers, Sequences, FiniteSets, SequencesExt

CONSTANTS
  NextProcs,   \* processes that may call Next
  SetProcs,    \* processes that may call SetFloor
  MaxClock,    \* generator values are 1..MaxClock
  FloorArgs,   \* SetFloor arguments tried
  MaxCalls,    \* calls per process
  GenModes,    \* generator assumptions tried, subset of {"mono", "any"}
  Variant      \* "code" | "store" | "lt" | "nocheck" | "noretry" | "noprobe" | "fastinv"

VARIABLES
  gen,       \* largest value the generator returned so far
  floor,     \* g.floor
  pc,        \* [Procs -> label]
  loc,       \* [Procs -> locals of the running call]
  ncalls,    \* [Procs -> calls started]
  retIds,    \* history: ids returned by Next so far
  sumRet,    \* history: sum of retIds (cheap fingerprint of the set for conformance)
  maxRet,    \* history: largest returned id (0 = none)
  maxFence,  \* history: largest f with SetFloor(f) = nil returned (0 = none)
  snap,      \* history: [Procs -> maxRet/maxFence at the start of the running call]
  cfg,       \* [gen |-> "mono" | "any"]
  ev         \* last step (observation only)

vars == <<gen, floor, pc, loc, ncalls, retIds, sumRet, maxRet, maxFence, snap, cfg, ev>>
hvars == <<retIds, sumRet, maxRet, maxFence>>

Procs == NextProcs \cup SetProcs
Idle0 == [k |-> "none", arg |-> 0, val |-> 0, cur |-> 0, ok |-> TRUE]
Snap0 == [maxRet |-> 0, maxFence |-> 0]
Max2(a, b) == IF a >= b THEN a ELSE b

Init ==
  /\ gen = 0 /\ floor = 0
  /\ pc = [p \in Procs |-> "idle"]
  /\ loc = [p \in Procs |-> Idle0]
  /\ ncalls = [p \in Procs |-> 0]
  /\ retIds = {} /\ sumRet = 0 /\ maxRet = 0 /\ maxFence = 0
  /\ snap = [p \in Procs |-> Snap0]
  /\ cfg \in [gen : GenModes]
  /\ ev = [a |-> "Init", cfg |-> cfg]

\* Values the generator may return now.
GenSet == IF cfg.gen = "mono" THEN (gen + 1)..MaxClock ELSE 1..MaxClock

Goto(p, l)   == pc' = [pc EXCEPT ![p] = l]
Local(p, r)  == loc' = [loc EXCEPT ![p] = r]

-------------------------------------------------------------------------------
\* Call boundaries.

Start(p, k, f) ==
  /\ pc[p] = "idle" /\ ncalls[p] < MaxCalls
  /\ \/ k = "Next" /\ p \in NextProcs /\ f = 0
     \/ k = "SetFloor" /\ p \in SetProcs
  /\ Goto(p, IF k = "Next" THEN "n_gen" ELSE "s_load")
  /\ Local(p, [Idle0 EXCEPT !.k = k, !.arg = f])
  /\ ncalls' = [ncalls EXCEPT ![p] = @ + 1]
  /\ snap' = [snap EXCEPT ![p] = [maxRet |-> maxRet, maxFence |-> maxFence]]
  /\ ev' = [a |-> "Start", p |-> p, k |-> k, f |-> f]
  /\ UNCHANGED <<gen, floor, hvars, cfg>>

\* The return of a call as the caller sees it.  Parametrised by the returned values so
\* that Trace.tla can bind them from a recorded history.
EndCall(p, id, ok) ==
  /\ pc[p] # "idle"
  /\ Goto(p, "idle") /\ Local(p, Idle0)
  /\ IF loc[p].k = "Next"
       THEN /\ retIds' = retIds \cup {id}
            /\ sumRet' = IF id \in retIds THEN sumRet ELSE sumRet + id
            /\ maxRet' = Max2(maxRet, id)
            /\ UNCHANGED maxFence
            /\ ev' = [a |-> "End", p |-> p, k |-> "Next", res |-> [id |-> id]]
       ELSE /\ maxFence' = IF ok THEN Max2(maxFence, loc[p].arg) ELSE maxFence
            /\ UNCHANGED <<retIds, sumRet, maxRet>>
            /\ ev' = [a |-> "End", p |-> p, k |-> "SetFloor", res |-> [ok |-> ok]]
  /\ UNCHANGED <<gen, floor, ncalls, snap, cfg>>

End(p) == pc[p] = "ret" /\ EndCall(p, loc[p].val, loc[p].ok)

-------------------------------------------------------------------------------
\* Next.

NGen(p) ==
  /\ pc[p] = "n_gen"
  /\ \E v \in GenSet :
       /\ gen' = Max2(gen, v)
       /\ Local(p, [loc[p] EXCEPT !.val = v])
       /\ ev' = [a |-> "Gen", p |-> p, v |-> v]
  /\ Goto(p, "n_load")
  /\ UNCHANGED <<floor, ncalls, hvars, snap, cfg>>

\* floor := g.floor.Load(); if raw <= floor { continue }
NLoad(p) ==
  /\ pc[p] = "n_load"
  /\ LET retry == CASE Variant = "lt"      -> loc[p].val < floor
                    [] Variant = "nocheck" -> FALSE
                    [] OTHER               -> loc[p].val <= floor
     IN Goto(p, IF retry THEN "n_gen" ELSE "n_cas")
  /\ Local(p, [loc[p] EXCEPT !.cur = floor])
  /\ ev' = [a |-> "Load", p |-> p]
  /\ UNCHANGED <<gen, floor, ncalls, hvars, snap, cfg>>

\* if g.floor.CompareAndSwap(floor, raw) { return raw }
NCas(p) ==
  /\ pc[p] = "n_cas"
  /\ IF floor = loc[p].cur \/ Variant = "store"
       THEN floor' = loc[p].val /\ Goto(p, "ret")
       ELSE floor' = floor /\ Goto(p, "n_gen")
  /\ ev' = [a |-> "Cas", p |-> p]
  /\ UNCHANGED <<gen, loc, ncalls, hvars, snap, cfg>>

-------------------------------------------------------------------------------
\* SetFloor.

\* current := g.floor.Load(); if floor <= current { return nil }
SLoad(p) ==
  /\ pc[p] = "s_load"
  /\ LET fast == IF Variant = "fastinv" THEN loc[p].arg >= floor ELSE loc[p].arg <= floor
     IN IF fast
          THEN Goto(p, "ret") /\ Local(p, [loc[p] EXCEPT !.cur = floor, !.ok = TRUE])
          ELSE Goto(p, "s_probe") /\ Local(p, [loc[p] EXCEPT !.cur = floor])
  /\ ev' = [a |-> "Load", p |-> p]
  /\ UNCHANGED <<gen, floor, ncalls, hvars, snap, cfg>>

\* probe := Generate(); if probe <= floor { return error }
SProbe(p) ==
  /\ pc[p] = "s_probe"
  /\ \E v \in GenSet :
       /\ gen' = Max2(gen, v)
       /\ IF v <= loc[p].arg /\ Variant # "noprobe"
            THEN Goto(p, "ret") /\ Local(p, [loc[p] EXCEPT !.val = v, !.ok = FALSE])
            ELSE Goto(p, "s_lload") /\ Local(p, [loc[p] EXCEPT !.val = v])
       /\ ev' = [a |-> "Gen", p |-> p, v |-> v]
  /\ UNCHANGED <<floor, ncalls, hvars, snap, cfg>>

\* current = g.floor.Load(); if probe <= current { return nil }
SLLoad(p) ==
  /\ pc[p] = "s_lload"
  /\ IF loc[p].val <= floor
       THEN Goto(p, "ret") /\ Local(p, [loc[p] EXCEPT !.cur = floor, !.ok = TRUE])
       ELSE Goto(p, "s_cas") /\ Local(p, [loc[p] EXCEPT !.cur = floor])
  /\ ev' = [a |-> "Load", p |-> p]
  /\ UNCHANGED <<gen, floor, ncalls, hvars, snap, cfg>>

\* if g.floor.CompareAndSwap(current, probe) { return nil }
SCas(p) ==
  /\ pc[p] = "s_cas"
  /\ IF floor = loc[p].cur
       THEN floor' = loc[p].val /\ Goto(p, "ret")
       ELSE floor' = floor /\ Goto(p, IF Variant = "noretry" THEN "ret" ELSE "s_lload")
  /\ ev' = [a |-> "Cas", p |-> p]
  /\ UNCHANGED <<gen, loc, ncalls, hvars, snap, cfg>>

-------------------------------------------------------------------------------
Step(p) == \/ NGen(p) \/ NLoad(p) \/ NCas(p)
           \/ SLoad(p) \/ SProbe(p) \/ SLLoad(p) \/ SCas(p)
           \/ End(p)

Next ==
  \/ \E p \in NextProcs : Start(p, "Next", 0)
  \/ \E p \in SetProcs, f \in FloorArgs : Start(p, "SetFloor", f)
  \/ \E p \in Procs : Step(p)

Spec == Init /\ [][Next]_vars

\* What the real allocator can be asked for without disturbing it (in-package: the
\* atomic floor); used when behaviours are replayed call by call.
Proj == [floor |-> floor]

\* What a recorded history determines.
HistProj == [n |-> Cardinality(retIds), sum |-> sumRet, maxRet |-> maxRet, maxFence |-> maxFence]

-------------------------------------------------------------------------------
\* Property C30.  (Action properties: `ev` is hidden by VIEW.)

IsEndNext == ev'.a = "End" /\ ev'.k = "Next"

\* Returned ids are pairwise distinct.
C30_Unique == [][IsEndNext => ev'.res.id \notin retIds]_vars

\* Call A returned before call B started  =>  id(A) < id(B).
C30_RealTimeOrder == [][IsEndNext => ev'.res.id > snap[ev'.p].maxRet]_vars

\* SetFloor(f) returned nil before call B started  =>  id(B) > f.
C30_AboveFence == [][IsEndNext => ev'.res.id > snap[ev'.p].maxFence]_vars

\* Lemmas of the design (why the property holds whatever the generator does): the
\* floor only grows and dominates everything that was returned or fenced.
L_FloorMonotone == [][floor' >= floor]_vars
L_FloorCovers   == maxRet <= floor /\ maxFence <= floor

TypeOK ==
  /\ floor \in 0..MaxClock /\ gen \in 0..MaxClock
  /\ retIds \subseteq 1..MaxClock
  /\ \A p \in Procs : pc[p] = "idle" => loc[p] = Idle0

View == <<gen, floor, pc, loc, ncalls, retIds, sumRet, maxRet, maxFence, snap, cfg>>
===============================================================================

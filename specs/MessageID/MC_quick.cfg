\* 2 Next callers + 1 SetFloor caller, one call each, generator values 1..4, both generator
\* assumptions.  Measured: 248,380 states generated, 81,623 distinct, depth 20 (43 s, 4 workers, loaded box).
SPECIFICATION Spec
CONSTANTS
  NextProcs = {"c1", "c2"}
  SetProcs = {"s1"}
  MaxClock = 4
  FloorArgs = {1, 2, 3}
  MaxCalls = 1
  GenModes = {"mono", "any"}
  Variant = "code"
VIEW View
INVARIANTS TypeOK L_FloorCovers
PROPERTIES C30_Unique C30_RealTimeOrder C30_AboveFence L_FloorMonotone
CHECK_DEADLOCK FALSE

SPECIFICATION TraceSpec
CONSTANTS
  NextProcs <- TProcs
  SetProcs <- TProcs
  MaxClock = 1000000
  FloorArgs = {0}
  MaxCalls = 1000000
  GenModes = {"mono"}
  Variant = "code"
CONSTRAINT Track
INVARIANTS Conform
PROPERTIES C30_Unique C30_RealTimeOrder C30_AboveFence
POSTCONDITION Accepted
CHECK_DEADLOCK FALSE

-------------------------------- MODULE Trace --------------------------------
(* Trace validation for property C30 (code -> spec).

   The harness runs many goroutines against the real allocator.  Every call logs
   Start(p, kind, f) before it enters Next/SetFloor and End(p, result) after it
   returned; both take a stamp from one shared atomic counter, and the log is written
   in stamp order.  So "End of A is logged before Start of B" implies that A really
   returned before B really started.  Ids and fence arguments of one trace are
   replaced by their ranks (an order isomorphism: the property only compares).

   Start and End are the only actions of MessageID that change the history variables
   the property speaks about; the generator call, the loads and the compare-and-swap
   between them are internal steps and are not in the log.  The trace spec therefore
   takes Start/End from the log, leaves the allocator's internals unconstrained
   (unchanged), and evaluates the three C30 action properties at every End.  The
   history projection (number, sum and maximum of the returned ids, largest
   acknowledged fence) is recomputed by the harness from the same log and compared in
   Conform, so that every logged value is bound. *)
EXTENDS MessageID, Json, TLC
VARIABLE l

Log == ndJsonDeserialize("trace.ndjson")

TProcs == {"g" \o ToString(i) : i \in 1..64}

TraceInit == Init /\ l = 1

Reset0 ==
  /\ gen' = 0 /\ floor' = 0
  /\ pc' = [p \in Procs |-> "idle"]
  /\ loc' = [p \in Procs |-> Idle0]
  /\ ncalls' = [p \in Procs |-> 0]
  /\ retIds' = {} /\ sumRet' = 0 /\ maxRet' = 0 /\ maxFence' = 0
  /\ snap' = [p \in Procs |-> Snap0]
  /\ cfg' = Log[l].ev.cfg
  /\ ev' = Log[l].ev

LogStep(e) ==
  CASE e.a = "Init"  -> Reset0
    [] e.a = "Start" -> Start(e.p, e.k, e.f)
    [] e.a = "End"   -> /\ loc[e.p].k = e.k
                        /\ IF e.k = "Next" THEN EndCall(e.p, e.res.id, TRUE)
                                           ELSE EndCall(e.p, 0, e.res.ok)

TraceNext == l <= Len(Log) /\ l' = l + 1 /\ LogStep(Log[l].ev)

TraceSpec == TraceInit /\ [][TraceNext]_<<vars, l>>

Conform == l > 1 /\ Log[l - 1].ev.a # "Init" => HistProj = Log[l - 1].st

HW       == TLCSet(1, IF l > TLCGet(1) THEN l ELSE TLCGet(1))
Track    == HW
Accepted == TLCGet(1) = Len(Log) + 1
ASSUME TLCSet(1, 0)
===============================================================================

\* Two callers that each make two calls (a caller's second call starts after its first
\* returned) + 1 SetFloor caller, generator values 1..4.  Measured: 8,946,825 generated, 2,057,299 distinct (5 min, 4 workers, loaded box).
SPECIFICATION Spec
CONSTANTS
  NextProcs = {"c1", "c2"}
  SetProcs = {"s1"}
  MaxClock = 4
  FloorArgs = {2}
  MaxCalls = 2
  GenModes = {"mono", "any"}
  Variant = "code"
VIEW View
INVARIANTS TypeOK L_FloorCovers
PROPERTIES C30_Unique C30_RealTimeOrder C30_AboveFence L_FloorMonotone
CHECK_DEADLOCK FALSE

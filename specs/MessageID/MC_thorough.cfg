\* 3 Next callers + 1 SetFloor caller, one call each, generator values 1..5, both generator
\* assumptions.  Measured: 81,073,476 states generated, 16,358,435 distinct, depth 25
\* (14.5 min, 4 workers, loaded box).
SPECIFICATION Spec
CONSTANTS
  NextProcs = {"c1", "c2", "c3"}
  SetProcs = {"s1"}
  MaxClock = 5
  FloorArgs = {1, 2, 3, 4}
  MaxCalls = 1
  GenModes = {"mono", "any"}
  Variant = "code"
VIEW View
INVARIANTS TypeOK L_FloorCovers
PROPERTIES C30_Unique C30_RealTimeOrder C30_AboveFence L_FloorMonotone
CHECK_DEADLOCK FALSE

SPECIFICATION Spec
CONSTANTS
  Chans = {"c1"}
  CEs = {1, 2}
  LEs = {1, 2}
  RGs = {0, 2, 3}
  Leaders = {1, 2}
  Topos <- ToposQuick
  Leases = {1, 2}
  Seqs = {0, 1}
  Fences <- FencesQuick
  MaxRG = 4
  BatchCands <- BatchQuick
VIEW View
INVARIANTS TypeOK
PROPERTIES C15_EpochsForward C15_SameEpochLeaderLease C15_RetentionFenceForward C15_RouteGeneration C15_RegressReported C15_RejectedUnchanged
CHECK_DEADLOCK FALSE

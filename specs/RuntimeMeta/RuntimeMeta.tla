------------------------------ MODULE RuntimeMeta ------------------------------
(* Channel runtime (routing) metadata rows of the Pebble-backed metadata DB
   (pkg/db/meta/table_runtime_meta.go, batch.go, compat.go).

   Abstract state: one row per channel, absent or a record of the fields property
   C15 speaks about.  The monotonic resolver (resolveMonotonicChannelRuntimeMeta,
   preserveRuntimeMetaState, bumpRuntimeRoute) is transcribed, not idealised.

   One action per exported call:
     Upsert   Shard.UpsertChannelRuntimeMeta            (reports applied/stale/conflict)
     Advance  Shard.AdvanceChannelRetentionThroughSeq   (ok/notfound/conflict)
     Delete   Shard.DeleteChannelRuntimeMeta            (ok/notfound)
     Batch    WriteBatch{Upsert,Create,AdvanceRetention,Delete}ChannelRuntimeMeta* + Commit:
              the staged operations are resolved in order against an overlay of the
              rows written earlier in the same batch and are committed atomically
              (a conflicting operation fails the whole batch; a stale upsert is
              silently skipped, which is what the code does on this path)
     Reopen   Close + Open of the database (rows are durable)

   Not modelled (the harness keeps them constant or tied, they are not compared):
   MinISR, Features, DirectoryGeneration; RetentionUpdatedAtMS is a fixed function
   of RetentionThroughSeq and fence reason/deadline a fixed function of (token,
   version), so that the code's tie-breaks on them never decide anything. *)
EXTENDS Integers, Sequences, FiniteSets, SequencesExt

CONSTANTS
  Chans,      \* channel names (strings)
  CEs,        \* candidate channel epochs
  LEs,        \* candidate leader epochs
  RGs,        \* candidate route generations; 0 = "not given"
  Leaders,    \* candidate leaders (0 = none)
  Topos,      \* candidate [rep, isr, status] records (rep/isr sorted sequences)
  Leases,     \* candidate lease deadlines
  Seqs,       \* candidate retention-through sequences
  Fences,     \* candidate [tok, ver] records
  MaxRG,      \* bound on the stored route generation (exhaustive runs)
  BatchCands  \* candidates tried inside batches by Next

VARIABLES
  rows,       \* [Chans -> row]
  ev          \* last call and reply (observation only)

vars == <<rows, ev>>

Absent == [present |-> FALSE, ce |-> 0, le |-> 0, rg |-> 0, leader |-> 0,
           rep |-> <<>>, isr |-> <<>>, status |-> 0, lease |-> 0, rts |-> 0,
           ftok |-> "", fver |-> 0]

Mk(ce, le, rg, ld, t, ls, s, f) ==
  [ce |-> ce, le |-> le, rg |-> rg, leader |-> ld, rep |-> t.rep, isr |-> t.isr,
   status |-> t.status, lease |-> ls, rts |-> s, ftok |-> f.tok, fver |-> f.ver]

In(x, sq) == \E i \in 1..Len(sq) : sq[i] = x

\* validateChannelRuntimeMeta for the modelled fields (MinISR is fixed at 1).
Valid(m) ==
  /\ Len(m.rep) > 0
  /\ \A i \in 1..Len(m.isr) : In(m.isr[i], m.rep)
  /\ m.leader # 0 => In(m.leader, m.rep) /\ In(m.leader, m.isr)
  /\ m.ftok # "" => m.fver > 0

Cands == {m \in {Mk(ce, le, rg, ld, t, ls, s, f) :
                   ce \in CEs, le \in LEs, rg \in RGs, ld \in Leaders, t \in Topos,
                   ls \in Leases, s \in Seqs, f \in Fences} : Valid(m)}

Max2(a, b) == IF a >= b THEN a ELSE b

\* normalizeChannelRuntimeMeta: a zero route generation is derived.
Norm(m) == IF m.rg = 0
             THEN [m EXCEPT !.rg = Max2(Max2(m.ce, m.le), Max2(m.fver, 1))]
             ELSE m

AsRow(m) == [present |-> TRUE, ce |-> m.ce, le |-> m.le, rg |-> m.rg, leader |-> m.leader,
             rep |-> m.rep, isr |-> m.isr, status |-> m.status, lease |-> m.lease,
             rts |-> m.rts, ftok |-> m.ftok, fver |-> m.fver]

\* preserveRuntimeMetaState
Preserve(ex, c) ==
  LET c1 == IF c.rts < ex.rts THEN [c EXCEPT !.rts = ex.rts] ELSE c
  IN IF c1.fver <= ex.fver THEN [c1 EXCEPT !.ftok = ex.ftok, !.fver = ex.fver] ELSE c1

\* runtimeRouteChanged (modelled fields)
CodeChanged(a, b) ==
  \/ a.ce # b.ce \/ a.le # b.le \/ a.leader # b.leader
  \/ a.rep # b.rep \/ a.isr # b.isr \/ a.status # b.status
  \/ a.lease # b.lease \/ a.rts # b.rts \/ a.ftok # b.ftok \/ a.fver # b.fver

\* bumpRuntimeRoute
Bump(ex, c, had) ==
  LET g1 == IF ~had /\ c.rg < ex.rg THEN ex.rg ELSE c.rg
      g2 == IF CodeChanged(ex, c) /\ g1 <= ex.rg THEN ex.rg + 1 ELSE g1
  IN [c EXCEPT !.rg = g2]

\* resolveMonotonicChannelRuntimeMeta: the next row and the reported result.
Resolve(ex, m) ==
  LET had == m.rg # 0
      c   == Norm(m)
      app(x) == [row |-> AsRow(Bump(ex, Preserve(ex, x), had)), res |-> "applied"]
  IN IF ~ex.present THEN [row |-> AsRow(c), res |-> "applied"]
     ELSE IF had /\ c.rg < ex.rg THEN [row |-> ex, res |-> "stale"]
     ELSE IF c.ce < ex.ce THEN [row |-> ex, res |-> "stale"]
     ELSE IF c.ce > ex.ce THEN app(c)
     ELSE IF c.le < ex.le THEN [row |-> ex, res |-> "stale"]
     ELSE IF c.le > ex.le THEN app(c)
     ELSE IF c.leader # ex.leader THEN [row |-> ex, res |-> "conflict"]
     ELSE app([c EXCEPT !.lease = Max2(c.lease, ex.lease)])

\* AdvanceChannelRetentionThroughSeq on one row. The request is candidate shaped:
\* (ce, le, leader, lease) are the expected values, rts the requested boundary.
AdvanceRow(ex, q) ==
  IF ~ex.present THEN [row |-> ex, res |-> "notfound"]
  ELSE IF ex.ce # q.ce \/ ex.le # q.le \/ ex.leader # q.leader \/ ex.lease # q.lease
    THEN [row |-> ex, res |-> "conflict"]
  ELSE IF q.rts <= ex.rts THEN [row |-> ex, res |-> "ok"]
  ELSE [row |-> [ex EXCEPT !.rts = q.rts, !.rg = ex.rg + 1], res |-> "ok"]

Bounded(rs) == \A c \in Chans : rs[c].rg <= MaxRG

Init ==
  /\ rows = [c \in Chans |-> Absent]
  /\ ev = [a |-> "Init"]

Upsert(c, m) ==
  LET r == Resolve(rows[c], m) IN
  /\ r.row.rg <= MaxRG
  /\ rows' = [rows EXCEPT ![c] = r.row]
  /\ ev' = [a |-> "Upsert", c |-> c, m |-> m, res |-> [r |-> r.res]]

Advance(c, q) ==
  LET r == AdvanceRow(rows[c], q) IN
  /\ r.row.rg <= MaxRG
  /\ rows' = [rows EXCEPT ![c] = r.row]
  /\ ev' = [a |-> "Advance", c |-> c, m |-> q, res |-> [r |-> r.res]]

Delete(c) ==
  /\ rows' = [rows EXCEPT ![c] = Absent]
  /\ ev' = [a |-> "Delete", c |-> c,
            res |-> [r |-> IF rows[c].present THEN "ok" ELSE "notfound"]]

\* One staged operation against the overlay rs: [k, c, m].
ApplyOp(rs, op) ==
  LET ex == rs[op.c] IN
  CASE op.k = "upsert" ->
         LET r == Resolve(ex, op.m) IN
         IF r.res = "conflict" THEN [rows |-> rs, err |-> "conflict", created |-> FALSE]
         ELSE [rows |-> [rs EXCEPT ![op.c] = r.row], err |-> "ok", created |-> FALSE]
    [] op.k = "create" ->
         IF ex.present THEN [rows |-> rs, err |-> "ok", created |-> FALSE]
         ELSE [rows |-> [rs EXCEPT ![op.c] = AsRow(Norm(op.m))], err |-> "ok", created |-> TRUE]
    [] op.k = "advance" ->
         LET r == AdvanceRow(ex, op.m) IN
         IF r.res # "ok" THEN [rows |-> rs, err |-> r.res, created |-> FALSE]
         ELSE [rows |-> [rs EXCEPT ![op.c] = r.row], err |-> "ok", created |-> FALSE]
    [] op.k = "delete" ->
         [rows |-> [rs EXCEPT ![op.c] = Absent], err |-> "ok", created |-> FALSE]

RECURSIVE RunOps(_, _, _)
RunOps(rs, ops, created) ==
  IF ops = <<>> THEN [rows |-> rs, err |-> "ok", created |-> created]
  ELSE LET r == ApplyOp(rs, Head(ops)) IN
       IF r.err # "ok" THEN [rows |-> rs, err |-> r.err, created |-> created]
       ELSE RunOps(r.rows, Tail(ops), Append(created, r.created))

\* The `created` flags are meaningful only after a successful commit.
Batch(ops) ==
  LET r  == RunOps(rows, ops, <<>>)
      ok == r.err = "ok"
  IN /\ ok => Bounded(r.rows)
     /\ rows' = IF ok THEN r.rows ELSE rows
     /\ ev' = [a |-> "Batch", ops |-> ops,
               res |-> [err |-> r.err,
                        created |-> IF ok THEN r.created ELSE [i \in 1..Len(ops) |-> FALSE]]]

Reopen ==
  /\ rows' = rows
  /\ ev' = [a |-> "Reopen", res |-> [ok |-> TRUE]]

ZeroM == Mk(0, 0, 0, 0, [rep |-> <<>>, isr |-> <<>>, status |-> 0], 0, 0, [tok |-> "", ver |-> 0])

BOps == {[k |-> "delete", c |-> c, m |-> ZeroM] : c \in Chans}
          \cup {[k |-> kk, c |-> c, m |-> m] : kk \in {"upsert", "create", "advance"}, c \in Chans, m \in BatchCands}
BatchOps == {<<o>> : o \in BOps} \cup {<<o1, o2>> : o1 \in BOps, o2 \in BOps}

Next ==
  \/ \E c \in Chans, m \in Cands : Upsert(c, m)
  \/ \E c \in Chans, ce \in CEs, le \in LEs, ld \in Leaders, ls \in Leases, s \in Seqs :
        Advance(c, [ZeroM EXCEPT !.ce = ce, !.le = le, !.leader = ld, !.lease = ls, !.rts = s])
  \/ \E c \in Chans : Delete(c)
  \/ \E ops \in BatchOps : Batch(ops)
  \/ Reopen

Spec == Init /\ [][Next]_vars

\* Observable projection: GetChannelRuntimeMeta of every channel.
Proj == [c \in Chans |-> rows[c]]

-------------------------------------------------------------------------------
\* Property C15 on the design.

TypeOK ==
  \A c \in Chans :
    IF rows[c].present
      THEN /\ rows[c].rg >= 1
           /\ Valid(rows[c])
      ELSE rows[c] = Absent

\* A delete ends the history of a row; what is created afterwards is a new row.
DeletedIn(e, c) ==
  \/ e.a = "Delete" /\ e.c = c
  \/ e.a = "Batch" /\ \E i \in 1..Len(e.ops) : e.ops[i].k = "delete" /\ e.ops[i].c = c
Continues(c) == rows[c].present /\ rows'[c].present /\ ~DeletedIn(ev', c)

\* Channel epoch and leader epoch never decrease, in the order the code uses
\* everywhere: (channel epoch, leader epoch) lexicographically.
C15_EpochsForward ==
  [][\A c \in Chans : Continues(c) =>
        \/ rows'[c].ce > rows[c].ce
        \/ rows'[c].ce = rows[c].ce /\ rows'[c].le >= rows[c].le]_vars

\* A same-epoch write cannot switch leaders or shorten the leader lease.
C15_SameEpochLeaderLease ==
  [][\A c \in Chans : Continues(c) /\ rows'[c].ce = rows[c].ce /\ rows'[c].le = rows[c].le =>
        /\ rows'[c].leader = rows[c].leader
        /\ rows'[c].lease >= rows[c].lease]_vars

\* The retention boundary and the write-fence version never decrease.
C15_RetentionFenceForward ==
  [][\A c \in Chans : Continues(c) =>
        /\ rows'[c].rts >= rows[c].rts
        /\ rows'[c].fver >= rows[c].fver]_vars

\* Every change of leader, replicas, ISR, status, lease, retention or fence strictly
\* increases the route generation (which never decreases).
RouteChanged(a, b) ==
  \/ a.leader # b.leader \/ a.rep # b.rep \/ a.isr # b.isr \/ a.status # b.status
  \/ a.lease # b.lease \/ a.rts # b.rts \/ a.ftok # b.ftok \/ a.fver # b.fver
C15_RouteGeneration ==
  [][\A c \in Chans : Continues(c) =>
        /\ rows'[c].rg >= rows[c].rg
        /\ RouteChanged(rows[c], rows'[c]) => rows'[c].rg > rows[c].rg]_vars

\* Writes that would regress are reported stale or conflicting ...
LexLess(m, r) == m.ce < r.ce \/ (m.ce = r.ce /\ m.le < r.le)
C15_RegressReported ==
  [][ev'.a = "Upsert" /\ rows[ev'.c].present =>
        /\ LexLess(ev'.m, rows[ev'.c]) => ev'.res.r = "stale"
        /\ (ev'.m.ce = rows[ev'.c].ce /\ ev'.m.le = rows[ev'.c].le /\ ev'.m.leader # rows[ev'.c].leader)
              => ev'.res.r \in {"stale", "conflict"}]_vars

\* ... and leave the stored row unchanged (a failed batch writes nothing at all).
C15_RejectedUnchanged ==
  [][/\ (ev'.a \in {"Upsert", "Advance"} /\ ev'.res.r \in {"stale", "conflict", "notfound"}) => rows' = rows
     /\ (ev'.a = "Batch" /\ ev'.res.err # "ok") => rows' = rows
     /\ ev'.a = "Reopen" => rows' = rows]_vars

\* Diagnostic only (not checked): the per-field reading "leader epoch never
\* decreases" is false by design, a higher channel epoch restarts the leader epoch.
Diag_LeaderEpochPerField ==
  [][\A c \in Chans : Continues(c) => rows'[c].le >= rows[c].le]_vars

View == <<rows>>

-------------------------------------------------------------------------------
\* Domains used by the configurations (records cannot be written in a .cfg).
T12a == [rep |-> <<1, 2>>,    isr |-> <<1, 2>>, status |-> 1]
T123 == [rep |-> <<1, 2, 3>>, isr |-> <<1, 2>>, status |-> 1]   \* replicas differ
T12i == [rep |-> <<1, 2, 3>>, isr |-> <<1, 2, 3>>, status |-> 1] \* ISR differs from T123
T12s == [rep |-> <<1, 2>>,    isr |-> <<1, 2>>, status |-> 2]   \* status differs from T12a
T1   == [rep |-> <<1, 2>>,    isr |-> <<1>>,    status |-> 1]   \* leader 2 is invalid here
F0  == [tok |-> "",  ver |-> 0]
Fa1 == [tok |-> "a", ver |-> 1]
Fb1 == [tok |-> "b", ver |-> 1]
F2  == [tok |-> "",  ver |-> 2]
Fa2 == [tok |-> "a", ver |-> 2]
Fb3 == [tok |-> "b", ver |-> 3]

ToposQuick    == {T12a, T123}
FencesQuick   == {F0, Fa1, Fb1}
BatchQuick    == {m \in Cands : m.rg = 0 /\ m.rep = T12a.rep /\ m.ftok = "" /\ m.lease = 1}
ToposThorough  == {T12a, T123, T12s}
FencesThorough == {F0, Fa1, Fb1, F2}
BatchThorough  == {m \in Cands : m.rg = 0 /\ m.rep = T12a.rep /\ m.status = 1 /\ m.ftok = "" /\ m.leader # 0
                                   /\ m.lease = 1 /\ m.le <= 2 /\ m.rts <= 1 /\ m.fver = 0}
\* two channels, small domains: cross-row independence of the batch overlay
ToposTwo  == {T12a}
FencesTwo == {F0}
BatchTwo  == {m \in Cands : m.rg = 0 /\ m.ftok = "" /\ m.lease = 1}
===============================================================================

------------------------------- MODULE TraceLin -------------------------------
(* Validation of recorded CONCURRENT histories (code -> spec): linearizability of the
   runtime-metadata calls against RuntimeMeta.

   The harness (runner/harness/runtimemeta, concurrent stage) lets several goroutines call
   Shard.UpsertChannelRuntimeMeta / AdvanceChannelRetentionThroughSeq / GetChannelRuntimeMeta
   and commit write batches for the same channel at once and logs, in one global order,
      Call(id, op)     the call is about to be issued
      Ret(id, res)     the call has returned res
      Final(st)        every call has returned; st = the stored rows
   one history after the other, each starting with an Init line (all rows absent).

   A history is accepted iff there is an order of its calls in which every call takes effect
   (as the action of RuntimeMeta with the logged arguments) at one instant between its Call
   and its Ret line, the specification's reply is exactly the logged reply, and the rows
   after the last call are exactly the logged final rows.  Calls are linearized lazily: only
   when the next line is the Ret of a call that has not taken effect yet, and then any
   pending calls may take effect, ending with that one.  This loses no order (an effect can
   always be postponed to just before the first later Ret without changing any reply).  The
   C15 action properties are evaluated on every step of the orders TLC tries, so they hold
   along the accepted one; acceptance is by the high-water mark of consumed lines. *)
EXTENDS RuntimeMeta, Json, TLC
VARIABLES l, pend

Log == ndJsonDeserialize("trace.ndjson")
tvars == <<vars, l, pend>>

Empty        == << >>
Put(f, k, v) == [x \in DOMAIN f \cup {k} |-> IF x = k THEN v ELSE f[x]]
Del(f, k)    == [x \in DOMAIN f \ {k} |-> f[x]]

\* How a row is logged: the row and the sum of its numeric fields (see rowView in the harness).
RowSum(r)  == r.ce + r.le + r.rg + r.leader + r.status + r.lease + r.rts + r.fver
RowView(r) == [row |-> r, sum |-> RowSum(r)]

\* GetChannelRuntimeMeta: a read that is part of the history.
Get(c) ==
  /\ UNCHANGED rows
  /\ ev' = [a |-> "Get", c |-> c, res |-> RowView(rows[c])]

Do(op) ==
  CASE op.a = "Upsert"  -> Upsert(op.c, op.m)
    [] op.a = "Advance" -> Advance(op.c, op.m)
    [] op.a = "Delete"  -> Delete(op.c)
    [] op.a = "Batch"   -> Batch(op.ops)
    [] op.a = "Get"     -> Get(op.c)

\* What the harness logs of a reply (the created flags of a batch are not part of this stage).
Logged(op, res) == IF op.a = "Batch" THEN [err |-> res.err] ELSE res

TraceInit == Init /\ l = 1 /\ pend = Empty

\* The call `id` takes effect now.
Lin(id) ==
  /\ l <= Len(Log) /\ Log[l].ev.a = "Ret"
  /\ Log[l].ev.id \in DOMAIN pend /\ ~pend[Log[l].ev.id].done
  /\ id \in DOMAIN pend /\ ~pend[id].done
  /\ Do(pend[id].op)
  /\ pend' = [pend EXCEPT ![id] = [op |-> @.op, done |-> TRUE, res |-> Logged(@.op, ev'.res)]]
  /\ UNCHANGED l

\* Not a property of the rows but of how write batches are committed: pkg/db/internal/commit
\* coalesces the write batches of DIFFERENT hash slots that are in flight at the same time into one
\* engine batch, and when the Build of one of them is refused (a guard conflict, a missing row) every
\* request of the group is completed with that error and nothing is written (Coordinator.commit:
\* completeAll).  A batch may therefore fail with the error of another batch that was in flight at the
\* same time; it then changes nothing.  Direct shard calls do not go through the coordinator.
GroupFail(id, e) ==
  /\ l <= Len(Log) /\ Log[l].ev.a = "Ret"
  /\ Log[l].ev.id \in DOMAIN pend /\ ~pend[Log[l].ev.id].done
  /\ id \in DOMAIN pend /\ ~pend[id].done /\ pend[id].op.a = "Batch"
  /\ \E s \in DOMAIN pend \ {id} :
        pend[s].op.a = "Batch" /\ (pend[s].done => pend[s].res = [err |-> e])
  /\ UNCHANGED rows
  /\ ev' = [a |-> "Batch", ops |-> pend[id].op.ops,
            res |-> [err |-> e, created |-> [i \in 1..Len(pend[id].op.ops) |-> FALSE]]]
  /\ pend' = [pend EXCEPT ![id] = [op |-> @.op, done |-> TRUE, res |-> [err |-> e]]]
  /\ UNCHANGED l

Read ==
  /\ l <= Len(Log)
  /\ l' = l + 1
  /\ LET e == Log[l].ev IN
       CASE e.a = "Init" ->
              /\ rows' = [c \in Chans |-> Absent]
              /\ pend' = Empty
              /\ ev' = [a |-> "Init"]
         [] e.a = "Call" ->
              /\ pend' = Put(pend, e.id, [op |-> e.op, done |-> FALSE, res |-> [none |-> TRUE]])
              /\ UNCHANGED rows
              /\ ev' = [a |-> "Call"]
         [] e.a = "Ret" ->
              /\ e.id \in DOMAIN pend /\ pend[e.id].done
              /\ pend[e.id].res = e.res
              /\ pend' = Del(pend, e.id)
              /\ UNCHANGED rows
              /\ ev' = [a |-> "Ret"]
         [] e.a = "Final" ->
              /\ DOMAIN pend = {}
              /\ [c \in Chans |-> RowView(rows[c])] = Log[l].st
              /\ UNCHANGED <<rows, pend>>
              /\ ev' = [a |-> "Final"]

TraceNext ==
  \/ Read
  \/ \E id \in DOMAIN pend : Lin(id)
  \/ \E id \in DOMAIN pend : \E e \in {"conflict", "notfound"} : GroupFail(id, e)

TraceSpec == TraceInit /\ [][TraceNext]_tvars

\* Acceptance: every line was consumed on some branch.
HW       == TLCSet(1, IF l > TLCGet(1) THEN l ELSE TLCGet(1))
Track    == HW
Accepted == IF TLCGet(1) = Len(Log) + 1 THEN TRUE
            ELSE PrintT(<<"no linearization explains line", TLCGet(1), Log[TLCGet(1)]>>) /\ FALSE
ASSUME TLCSet(1, 0)

NoTopos  == {}
NoFences == {}
NoBatch  == {}
===============================================================================

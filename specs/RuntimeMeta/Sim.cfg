INIT SimInit
NEXT SimNext
CONSTANTS
  Chans = {"c1", "c2"}
  CEs = {1, 2, 3}
  LEs = {0, 1, 2, 3}
  RGs = {0, 1, 2, 3, 5, 8}
  Leaders = {0, 1, 2}
  Topos <- SimTopos
  Leases = {0, 1, 2, 3}
  Seqs = {0, 1, 2, 3}
  Fences <- SimFences
  MaxRG = 1000000
  BatchCands <- SimBatch
  Depth = 25
INVARIANT Emit
CHECK_DEADLOCK FALSE

--------------------------------- MODULE Sim ---------------------------------
(* Behaviour generator: `tlc -simulate` on this module prints one JSON behaviour
   per line ("BEH {...}") when a run reaches Depth steps.  Arguments are drawn with
   RandomElement so that -simulate chooses among action kinds; most candidates are
   "aimed": derived from the stored row by changing one field (or by moving an
   epoch), with the route generation omitted, stale, equal or newer. *)
EXTENDS RuntimeMeta, Json, TLC
CONSTANT Depth
VARIABLE hist

SimTopos  == {T12a, T123, T12i, T12s, T1}
SimFences == {F0, Fa1, Fb1, F2, Fa2, Fb3}
SimBatch  == {}   \* Next is not used here

SimInit == Init /\ hist = << [ev |-> ev, st |-> Proj] >>
Pick(S) == {RandomElement(S)}
Clamp(x) == IF x < 0 THEN 0 ELSE x

FromRow(r) == [ce |-> r.ce, le |-> r.le, rg |-> 0, leader |-> r.leader, rep |-> r.rep,
               isr |-> r.isr, status |-> r.status, lease |-> r.lease, rts |-> r.rts,
               ftok |-> r.ftok, fver |-> r.fver]

TweakKinds == {"rand", "none", "topo", "lease", "rts", "fence", "leader", "le+", "ce+", "le-", "ce-", "all"}

\* dg: route generation relative to the stored one (99 = not given).
GenM(r, f, dg, ce, le, g, ld, t, ls, s, fe, dl, ds, ft, dfv) ==
  IF ~r.present \/ f = "rand" THEN Mk(ce, le, g, ld, t, ls, s, fe)
  ELSE
    LET b  == [FromRow(r) EXCEPT !.rg = IF dg = 99 THEN 0 ELSE Clamp(r.rg + dg)]
        nf == [tok |-> ft, ver |-> Clamp(r.fver + dfv)]
    IN CASE f = "none"   -> b
         [] f = "topo"   -> [b EXCEPT !.rep = t.rep, !.isr = t.isr, !.status = t.status]
         [] f = "lease"  -> [b EXCEPT !.lease = Clamp(r.lease + dl)]
         [] f = "rts"    -> [b EXCEPT !.rts = Clamp(r.rts + ds)]
         [] f = "fence"  -> [b EXCEPT !.ftok = nf.tok, !.fver = nf.ver]
         [] f = "leader" -> [b EXCEPT !.leader = ld]
         [] f = "le+"    -> [b EXCEPT !.le = r.le + 1, !.leader = ld, !.lease = Clamp(r.lease + dl)]
         [] f = "ce+"    -> [b EXCEPT !.ce = r.ce + 1, !.le = le, !.leader = ld, !.lease = Clamp(r.lease + dl)]
         [] f = "le-"    -> [b EXCEPT !.le = Clamp(r.le - 1), !.lease = Clamp(r.lease + dl)]
         [] f = "ce-"    -> [b EXCEPT !.ce = Clamp(r.ce - 1), !.le = le]
         [] f = "all"    -> [b EXCEPT !.rep = t.rep, !.isr = t.isr, !.status = t.status,
                                      !.lease = Clamp(r.lease + dl), !.rts = Clamp(r.rts + ds),
                                      !.ftok = nf.tok, !.fver = nf.ver]

\* Retention advance request: expected values from the row, one of them possibly off.
GenQ(r, af, ds, s) ==
  IF ~r.present THEN [ZeroM EXCEPT !.ce = 1, !.le = 1, !.leader = 1, !.lease = 1, !.rts = s]
  ELSE LET q == [ZeroM EXCEPT !.ce = r.ce, !.le = r.le, !.leader = r.leader, !.lease = r.lease,
                              !.rts = Clamp(r.rts + ds)]
       IN CASE af = "ce"     -> [q EXCEPT !.ce = r.ce + 1]
            [] af = "le"     -> [q EXCEPT !.le = r.le + 1]
            [] af = "leader" -> [q EXCEPT !.leader = r.leader + 1]
            [] af = "lease"  -> [q EXCEPT !.lease = r.lease + 1]
            [] OTHER         -> q

\* One random candidate for channel c (a singleton set, or empty when invalid).
CandFor(c) ==
  {m \in {GenM(rows[c], f, dg, ce, le, g, ld, t, ls, s, fe, dl, ds, ft, dfv) :
            f \in Pick(TweakKinds), dg \in Pick({99, 98, -1, 0, 1}), ce \in Pick(CEs), le \in Pick(LEs),
            g \in Pick(RGs), ld \in Pick(Leaders), t \in Pick(Topos), ls \in Pick(Leases),
            s \in Pick(Seqs), fe \in Pick(Fences), dl \in Pick({-1, 0, 1, 2}), ds \in Pick({-1, 0, 1, 2}),
            ft \in Pick({"", "a", "b"}), dfv \in Pick({-1, 0, 1})} : Valid(m)}

ReqFor(c) ==
  {GenQ(rows[c], af, ds, s) :
     af \in Pick({"ok1", "ok2", "ok3", "ok4", "ce", "le", "leader", "lease"}),
     ds \in Pick({-1, 0, 1, 2}), s \in Pick(Seqs)}

OpFor(c) ==
  {[k |-> k, c |-> c, m |-> m] :
     k \in Pick({"upsert", "upsert2", "upsert3", "create", "advance", "advance2", "delete"}), m \in CandFor(c)}
Fix(o) == IF o.k \in {"upsert2", "upsert3"} THEN [o EXCEPT !.k = "upsert"]
          ELSE IF o.k = "delete" THEN [o EXCEPT !.m = ZeroM] ELSE o
OpsFor(c) == {IF o.k \in {"advance", "advance2"} THEN [o EXCEPT !.k = "advance", !.m = q] ELSE Fix(o) :
                o \in OpFor(c), q \in ReqFor(c)}

UpsertStep  == \E c \in Pick(Chans) : \E m \in CandFor(c) : Upsert(c, m)
AdvanceStep == \E c \in Pick(Chans) : \E q \in ReqFor(c) : Advance(c, q)
BatchStep   ==
  \E n \in Pick({1, 2, 3}), c1 \in Pick(Chans), c2 \in Pick(Chans), c3 \in Pick(Chans) :
    \E o1 \in OpsFor(c1), o2 \in OpsFor(c2), o3 \in OpsFor(c3) :
      Batch(SubSeq(<<o1, o2, o3>>, 1, n))

SimStep ==
  \/ UpsertStep
  \/ UpsertStep
  \/ UpsertStep
  \/ AdvanceStep
  \/ BatchStep
  \/ BatchStep
  \/ (RandomElement(1..6) = 1 /\ \E c \in Pick(Chans) : Delete(c))
  \/ (RandomElement(1..8) = 1 /\ Reopen)
SimNext == SimStep /\ hist' = Append(hist, [ev |-> ev', st |-> Proj'])
Emit    == Len(hist) = Depth + 1 => PrintT("BEH " \o ToJson([steps |-> hist]))
===============================================================================

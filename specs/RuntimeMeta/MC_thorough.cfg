SPECIFICATION Spec
CONSTANTS
  Chans = {"c1"}
  CEs = {1, 2}
  LEs = {1, 2}
  RGs = {0, 2, 4}
  Leaders = {0, 1, 2}
  Topos <- ToposThorough
  Leases = {1, 2}
  Seqs = {0, 1, 2}
  Fences <- FencesThorough
  MaxRG = 5
  BatchCands <- BatchThorough
VIEW View
INVARIANTS TypeOK
PROPERTIES C15_EpochsForward C15_SameEpochLeaderLease C15_RetentionFenceForward C15_RouteGeneration C15_RegressReported C15_RejectedUnchanged
CHECK_DEADLOCK FALSE

-------------------------------- MODULE Trace --------------------------------
(* Trace validation: the NDJSON file written by the harness (one step per line,
   traces concatenated, each starting with an "Init" line) must be a behaviour of
   RuntimeMeta.  The call arguments are bound from the log; reply and projection
   are then determined by the specification and compared in the invariant Conform,
   so a divergence is reported with the expected values.  The C15 action
   properties are evaluated on every step. *)
EXTENDS RuntimeMeta, Json, TLC
VARIABLE l

Log == ndJsonDeserialize("trace.ndjson")

TraceInit == Init /\ l = 1

Reset0 ==
  /\ rows' = [c \in Chans |-> Absent]
  /\ ev' = Log[l].ev

Step(e) ==
  CASE e.a = "Init"    -> Reset0
    [] e.a = "Upsert"  -> Upsert(e.c, e.m)
    [] e.a = "Advance" -> Advance(e.c, e.m)
    [] e.a = "Delete"  -> Delete(e.c)
    [] e.a = "Batch"   -> Batch(e.ops)
    [] e.a = "Reopen"  -> Reopen

TraceNext == l <= Len(Log) /\ l' = l + 1 /\ Step(Log[l].ev)

TraceSpec == TraceInit /\ [][TraceNext]_<<vars, l>>

\* Deterministic step: the logged reply and projection must be the specification's.
Conform ==
  l > 1 /\ Log[l - 1].ev.a # "Init" =>
    /\ ev.res = Log[l - 1].ev.res
    /\ Proj = Log[l - 1].st

\* Acceptance: every line was consumed.
HW       == TLCSet(1, IF l > TLCGet(1) THEN l ELSE TLCGet(1))
Track    == HW
Accepted == TLCGet(1) = Len(Log) + 1
ASSUME TLCSet(1, 0)

NoTopos  == {}
NoFences == {}
NoBatch  == {}
===============================================================================

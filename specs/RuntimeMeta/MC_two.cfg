SPECIFICATION Spec
CONSTANTS
  Chans = {"c1", "c2"}
  CEs = {1, 2}
  LEs = {1}
  RGs = {0}
  Leaders = {1, 2}
  Topos <- ToposTwo
  Leases = {1}
  Seqs = {0, 1}
  Fences <- FencesTwo
  MaxRG = 3
  BatchCands <- BatchTwo
VIEW View
INVARIANTS TypeOK
PROPERTIES C15_EpochsForward C15_SameEpochLeaderLease C15_RetentionFenceForward C15_RouteGeneration C15_RegressReported C15_RejectedUnchanged
CHECK_DEADLOCK FALSE

SPECIFICATION TraceSpec
CONSTANTS
  Chans = {"c1", "c2"}
  CEs = {}
  LEs = {}
  RGs = {}
  Leaders = {}
  Topos <- NoTopos
  Leases = {}
  Seqs = {}
  Fences <- NoFences
  MaxRG = 1000000000
  BatchCands <- NoBatch
CONSTRAINT Track
INVARIANTS TypeOK
PROPERTIES C15_EpochsForward C15_SameEpochLeaderLease C15_RetentionFenceForward C15_RouteGeneration C15_RegressReported C15_RejectedUnchanged
POSTCONDITION Accepted
CHECK_DEADLOCK FALSE

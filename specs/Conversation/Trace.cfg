SPECIFICATION TraceSpec
CONSTANTS
  Channels = {"c1", "c2"}
  MaxSeq = 100000000
  Ns = {0}
CONSTRAINT Track
\* C34_UnreadExact counts sequences one by one (a set of lc elements): exhaustive runs only.
INVARIANTS Conform TypeOK C34_LastVisible
PROPERTIES C34_ClearZero C34_SetAtMost C34_OnlyOwn C34_CursorsMonotone
POSTCONDITION Accepted
CHECK_DEADLOCK FALSE

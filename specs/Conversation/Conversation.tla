----------------------------- MODULE Conversation -----------------------------
(* Transient conversation rows (internal/usecase/conversation: app.go, unread.go).

   One user ("me") and a set of channels.  Per channel the usecase sees two inputs
   through its ports:

     rows[c]   the UID-owned membership row     (DirectoryStore / MembershipMutationStore)
                 st    "none" | "tomb" | "live"
                 join  first sequence visible after the current join
                 read  badge floor (read cursor), advanced by ClearUnread / SetUnread
                 del   deleted-to boundary, advanced by DeleteConversation
                 act   1 iff activated_at > 0
     heads[c]  the channel head the Leader reports  (HeadHydrator)
                 lc    last committed sequence
                 ret   retention-through sequence
                 own   the user's own last committed send
                 lm    sequence of the newest ordinary message the head carries (0 = none)
                 avail "ok" | "gone" (terminally disbanded) | "retry" (Leader unavailable)

   Rows and heads are ARBITRARY (the property quantifies over arbitrary membership rows
   and channel heads): Init enumerates every combination inside the bounds, including
   inconsistent ones (own > lc, lm <= ret, read > lc, join > lc + 1).  The usecase must
   be exact on all of them.

   One action per exported command (ClearUnread, SetUnread, DeleteConversation,
   ActivateConversation); List / Retry are pure observations and form the projection
   `Proj`.  Send, Retain, SetAvail, Leave, Join are the environment (channel log,
   retention, Leader availability, subscription changes).

   Only what property C34 constrains is observable: per channel whether a conversation
   is shown, its unread count and the sequence of the last message shown.  The stored
   read_seq / deleted_to_seq are state of the specification (they decide later
   observations) but are not compared: a refactoring may store a different cursor as
   long as every shown count and last message stay the same. *)
EXTENDS Integers, Sequences, FiniteSets

CONSTANTS
  Channels,   \* set of strings, e.g. {"c1","c2"}
  MaxSeq,     \* bound on every sequence number
  Ns          \* SetUnread arguments tried by the exhaustive runs

VARIABLES
  rows,       \* [Channels -> row]
  heads,      \* [Channels -> head]
  ev          \* last call and reply (observation only)

vars == <<rows, heads, ev>>

Avails   == {"ok", "gone", "retry"}
NoRow    == [st |-> "none", join |-> 0, read |-> 0, del |-> 0, act |-> 0]
TombRow  == [st |-> "tomb", join |-> 0, read |-> 0, del |-> 0, act |-> 0]
LiveRows == [st : {"live"}, join : 0..(MaxSeq + 1), read : 0..MaxSeq, del : 0..MaxSeq, act : {0, 1}]
RowDom   == {NoRow, TombRow} \cup LiveRows
HeadDom  == [lc : 0..MaxSeq, ret : 0..MaxSeq, own : 0..MaxSeq, lm : 0..MaxSeq, avail : Avails]

Max(a, b) == IF a >= b THEN a ELSE b

Init ==
  /\ rows \in [Channels -> RowDom]
  /\ heads \in [Channels -> HeadDom]
  /\ ev = [a |-> "Init", rows |-> rows, heads |-> heads]

-------------------------------------------------------------------------------
\* What the usecase computes for one live membership r and hydrated head h
\* (conversationFromMembership in app.go).
JoinFloor(r)  == IF r.join = 0 THEN 0 ELSE r.join - 1
Floor(r, h)   == Max(Max(JoinFloor(r), r.del), h.ret)             \* visibility floor
ERead(r, h)   == Max(Max(Floor(r, h), r.read), h.own)             \* effective read point
UnreadOf(r, h) == IF h.lc > ERead(r, h) THEN h.lc - ERead(r, h) ELSE 0
VisibleMsg(r, h) == h.lc >= r.join /\ h.lc > r.del                \* a post-join / post-delete message exists
LastOf(r, h)  == IF VisibleMsg(r, h) /\ h.lm > 0 /\ h.lm > Floor(r, h) THEN h.lm ELSE 0

Usable(c) == rows[c].st = "live" /\ heads[c].avail = "ok"
Shown(c)  == Usable(c) /\ (VisibleMsg(rows[c], heads[c]) \/ rows[c].act = 1)

Hidden  == [shown |-> FALSE, unread |-> 0, last |-> 0]
View(c) == IF Shown(c)
             THEN [shown |-> TRUE, unread |-> UnreadOf(rows[c], heads[c]), last |-> LastOf(rows[c], heads[c])]
             ELSE Hidden

\* Observable projection: what List (one page, or paged) and Retry show per channel.
Proj == [c \in Channels |-> View(c)]

-------------------------------------------------------------------------------
\* Environment.

\* A message is committed: by the user or by somebody else; `once` = a SyncOnce
\* (non-ordinary) message, which moves the commit boundary but is never a last message.
Send(c, me, once) ==
  /\ heads[c].lc < MaxSeq
  /\ LET h == heads[c]
         n == h.lc + 1
     IN /\ heads' = [heads EXCEPT ![c] = [h EXCEPT !.lc = n,
                                                  !.own = IF me THEN n ELSE h.own,
                                                  !.lm = IF once THEN h.lm ELSE n]]
        /\ ev' = [a |-> "Send", c |-> c, me |-> me, once |-> once, res |-> [seq |-> n]]
  /\ UNCHANGED rows

\* Retention advances monotonically.  The head keeps reporting its last message even
\* when it now lies at or below the boundary: hiding it is the usecase's job.
Retain(c, r) ==
  /\ LET nr == Max(heads[c].ret, r) IN
       /\ heads' = [heads EXCEPT ![c].ret = nr]
       /\ ev' = [a |-> "Retain", c |-> c, r |-> r, res |-> [ret |-> nr]]
  /\ UNCHANGED rows

SetAvail(c, v) ==
  /\ heads' = [heads EXCEPT ![c].avail = v]
  /\ ev' = [a |-> "SetAvail", c |-> c, v |-> v, res |-> [done |-> TRUE]]
  /\ UNCHANGED rows

Leave(c) ==
  /\ rows' = IF rows[c].st = "live" THEN [rows EXCEPT ![c] = TombRow] ELSE rows
  /\ ev' = [a |-> "Leave", c |-> c, res |-> [done |-> rows[c].st = "live"]]
  /\ UNCHANGED heads

\* (Re)subscription creates a fresh row that starts after the current commit boundary.
Join(c) ==
  /\ rows' = IF rows[c].st # "live"
               THEN [rows EXCEPT ![c] = [st |-> "live", join |-> heads[c].lc + 1, read |-> 0, del |-> 0, act |-> 0]]
               ELSE rows
  /\ ev' = [a |-> "Join", c |-> c, res |-> [done |-> rows[c].st # "live"]]
  /\ UNCHANGED heads

-------------------------------------------------------------------------------
\* Commands of the usecase.  Each reads the row, hydrates the head and, when both are
\* usable, advances one cursor monotonically (the store's Advance/Hide are monotonic).

ClearUnread(c) ==
  /\ LET r == rows[c]
         h == heads[c]
     IN /\ rows' = IF Usable(c) /\ h.lc > r.read THEN [rows EXCEPT ![c].read = h.lc] ELSE rows
        /\ ev' = [a |-> "ClearUnread", c |-> c, res |-> [ok |-> Usable(c)]]
  /\ UNCHANGED heads

SetTarget(r, h, n) == IF n < h.lc THEN Max(Floor(r, h), h.lc - n) ELSE Floor(r, h)

SetUnread(c, n) ==
  /\ n >= 0
  /\ LET r == rows[c]
         h == heads[c]
         t == SetTarget(r, h, n)
     IN /\ rows' = IF Usable(c) /\ t > r.read THEN [rows EXCEPT ![c].read = t] ELSE rows
        /\ ev' = [a |-> "SetUnread", c |-> c, n |-> n, res |-> [ok |-> Usable(c)]]
  /\ UNCHANGED heads

Delete(c) ==
  /\ LET r == rows[c]
         h == heads[c]
     IN /\ rows' = IF Usable(c) THEN [rows EXCEPT ![c].del = Max(r.del, h.lc), ![c].act = 0] ELSE rows
        /\ ev' = [a |-> "Delete", c |-> c, res |-> [ok |-> Usable(c)]]
  /\ UNCHANGED heads

\* Activation does not hydrate: it only needs the row (a tombstone ignores it silently).
Activate(c) ==
  /\ rows' = IF rows[c].st = "live" THEN [rows EXCEPT ![c].act = 1] ELSE rows
  /\ ev' = [a |-> "Activate", c |-> c, res |-> [ok |-> rows[c].st # "none"]]
  /\ UNCHANGED heads

Next ==
  \/ \E c \in Channels, me \in BOOLEAN, once \in BOOLEAN : Send(c, me, once)
  \/ \E c \in Channels, r \in 0..MaxSeq : Retain(c, r)
  \/ \E c \in Channels, v \in Avails : SetAvail(c, v)
  \/ \E c \in Channels : Leave(c)
  \/ \E c \in Channels : Join(c)
  \/ \E c \in Channels : ClearUnread(c)
  \/ \E c \in Channels, n \in Ns : SetUnread(c, n)
  \/ \E c \in Channels : Delete(c)
  \/ \E c \in Channels : Activate(c)

Spec == Init /\ [][Next]_vars

-------------------------------------------------------------------------------
\* Property C34 on the design.

TypeOK == rows \in [Channels -> RowDom] /\ heads \in [Channels -> HeadDom]

\* "Committed messages after the effective read point", counted one by one: a committed
\* sequence counts iff it lies after the join point, the delete-to boundary, the
\* retention boundary, the read cursor and the user's own last send.
Counted(r, h) == {s \in 1..h.lc : s >= r.join /\ s > r.del /\ s > h.ret /\ s > r.read /\ s > h.own}

C34_UnreadExact ==
  \A c \in Channels :
    /\ View(c).unread >= 0
    /\ View(c).shown => View(c).unread = Cardinality(Counted(rows[c], heads[c]))
    /\ ~View(c).shown => View(c) = Hidden

\* A message from before the join point, at or below the delete-to boundary or at or
\* below the retention boundary is never shown as the last message.
C34_LastVisible ==
  \A c \in Channels :
    View(c).last # 0 =>
      /\ View(c).shown
      /\ View(c).last = heads[c].lm
      /\ View(c).last >= rows[c].join
      /\ View(c).last > rows[c].del
      /\ View(c).last > heads[c].ret

\* Clearing unread makes it zero; setting unread to N makes it at most N.
C34_ClearZero ==
  [][ev'.a = "ClearUnread" /\ ev'.res.ok => UnreadOf(rows'[ev'.c], heads'[ev'.c]) = 0]_vars
C34_SetAtMost ==
  [][ev'.a = "SetUnread" /\ ev'.res.ok => UnreadOf(rows'[ev'.c], heads'[ev'.c]) <= ev'.n]_vars

\* A command touches only its own conversation, and never a head.
Commands == {"ClearUnread", "SetUnread", "Delete", "Activate"}
C34_OnlyOwn ==
  [][ev'.a \in Commands =>
       /\ heads' = heads
       /\ \A c \in Channels \ {ev'.c} : rows'[c] = rows[c]
       /\ ~ev'.res.ok => rows' = rows]_vars

\* Cursors of a row never move backwards while the row lives (design sanity).
C34_CursorsMonotone ==
  [][ev'.a # "Init" => \A c \in Channels :
       rows[c].st = "live" /\ rows'[c].st = "live" =>
         rows'[c].read >= rows[c].read /\ rows'[c].del >= rows[c].del /\ rows'[c].join = rows[c].join]_vars

MCView == <<rows, heads>>
===============================================================================

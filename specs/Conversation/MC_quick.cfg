\* Exhaustive: one channel, every row x head combination with sequences <= 2 is an
\* initial state (so every state and every transition inside the bounds is checked).
\* Measured: 17,982 distinct states (all initial), ~0.4M transitions.
SPECIFICATION Spec
CONSTANTS
  Channels = {"c1"}
  MaxSeq = 2
  Ns = {0, 1, 2, 3}
VIEW MCView
INVARIANTS TypeOK C34_UnreadExact C34_LastVisible
PROPERTIES C34_ClearZero C34_SetAtMost C34_OnlyOwn C34_CursorsMonotone
CHECK_DEADLOCK FALSE

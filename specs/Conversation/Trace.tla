-------------------------------- MODULE Trace --------------------------------
(* Trace validation: the NDJSON file written by the harness (one step per line,
   traces concatenated, each starting with an "Init" line that carries the rows and
   heads the fakes were loaded with) must be a behaviour of Conversation.  The call
   arguments are bound from the log; the reply and the projection are then determined
   by the specification and compared in the invariant Conform, so a divergence is
   reported with the expected values. *)
EXTENDS Conversation, Json, TLC
VARIABLE l

Log == ndJsonDeserialize("trace.ndjson")

TraceInit ==
  /\ rows = [c \in Channels |-> NoRow]
  /\ heads = [c \in Channels |-> [lc |-> 0, ret |-> 0, own |-> 0, lm |-> 0, avail |-> "ok"]]
  /\ ev = [a |-> "Boot"]
  /\ l = 1

Reset0 ==
  /\ rows' = [c \in Channels |-> Log[l].ev.rows[c]]
  /\ heads' = [c \in Channels |-> Log[l].ev.heads[c]]
  /\ ev' = Log[l].ev

Step(e) ==
  CASE e.a = "Init"        -> Reset0
    [] e.a = "Send"        -> Send(e.c, e.me, e.once)
    [] e.a = "Retain"      -> Retain(e.c, e.r)
    [] e.a = "SetAvail"    -> SetAvail(e.c, e.v)
    [] e.a = "Leave"       -> Leave(e.c)
    [] e.a = "Join"        -> Join(e.c)
    [] e.a = "ClearUnread" -> ClearUnread(e.c)
    [] e.a = "SetUnread"   -> SetUnread(e.c, e.n)
    [] e.a = "Delete"      -> Delete(e.c)
    [] e.a = "Activate"    -> Activate(e.c)

TraceNext == l <= Len(Log) /\ l' = l + 1 /\ Step(Log[l].ev)

TraceSpec == TraceInit /\ [][TraceNext]_<<vars, l>>

\* Deterministic step: the logged reply and projection must be the specification's.
Conform ==
  l > 1 =>
    /\ Log[l - 1].ev.a # "Init" => ev.res = Log[l - 1].ev.res
    /\ Proj = Log[l - 1].st

\* Acceptance: every line was consumed.
HW       == TLCSet(1, IF l > TLCGet(1) THEN l ELSE TLCGet(1))
Track    == HW
Accepted == TLCGet(1) = Len(Log) + 1
ASSUME TLCSet(1, 0)
===============================================================================

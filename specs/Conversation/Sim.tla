--------------------------------- MODULE Sim ---------------------------------
(* Behaviour generator: `tlc -simulate` on this module prints one JSON behaviour per
   line ("BEH {...}") when a run reaches Depth steps.  Every behaviour starts from a
   randomly drawn pair of (rows, heads) carried by its Init step: arbitrary ones
   (inconsistent heads, cursors beyond the head) and plausible ones are mixed. *)
EXTENDS Conversation, Json, TLC
CONSTANTS Depth, InitMax, Draws
VARIABLE hist

Pick(S)  == {RandomElement(S)}
OneOf(S) == CHOOSE x \in S : TRUE

\* Singleton sets; the parameters keep TLC from caching the draw as a constant.
RowVariants(c, d, k) ==
  CASE k = 1 -> {NoRow}
    [] k = 2 -> {TombRow}
    [] k \in {3, 4} ->          \* arbitrary live row
         {[st |-> "live", join |-> j, read |-> r, del |-> dl, act |-> a] :
            j \in Pick(0..(InitMax + 1)), r \in Pick(0..InitMax), dl \in Pick(0..InitMax), a \in Pick({0, 1})}
    [] OTHER ->                 \* plausible live row: early join, low cursors
         {[st |-> "live", join |-> j, read |-> r, del |-> dl, act |-> a] :
            j \in Pick(0..2), r \in Pick(0..3), dl \in Pick(0..2), a \in Pick({0, 1})}
DrawRow(c, d) == OneOf(UNION {RowVariants(c, d, k) : k \in Pick(1..8)})

HeadVariants(c, d, k, l) ==
  IF k = 1
    THEN {[lc |-> l, ret |-> r, own |-> o, lm |-> m, avail |-> v] :      \* arbitrary head
            r \in Pick(0..InitMax), o \in Pick(0..InitMax), m \in Pick(0..InitMax), v \in Pick(Avails)}
    ELSE {[lc |-> l, ret |-> r, own |-> o, lm |-> m, avail |-> v] :      \* consistent head
            r \in Pick(0..l), o \in Pick(0..l), m \in Pick(0..l),
            v \in Pick(IF k = 2 THEN Avails ELSE {"ok"})}
DrawHead(c, d) == OneOf(UNION {HeadVariants(c, d, k, l) : k \in Pick(1..5), l \in Pick(0..InitMax)})

SimInit ==
  \E d \in 1..Draws :
    /\ rows = [c \in Channels |-> DrawRow(c, d)]
    /\ heads = [c \in Channels |-> DrawHead(c, d)]
    /\ ev = [a |-> "Init", rows |-> rows, heads |-> heads]
    /\ hist = << [ev |-> ev, st |-> Proj] >>

Live    == {c \in Channels : Usable(c)}
OrNone(S) == S \cup {"none"}

\* One successor per action kind: arguments are drawn with RandomElement so that
\* `-simulate` chooses uniformly among action kinds, not among argument tuples.
SimStep ==
  \/ \E c \in Pick(Channels), me \in Pick(BOOLEAN), once \in Pick(BOOLEAN) : Send(c, me, once)
  \/ \E c \in Pick(Channels), me \in Pick(BOOLEAN) : Send(c, me, FALSE)
  \/ \E c \in Pick(Channels) : Send(c, FALSE, FALSE)
  \/ \E c \in Pick(Channels) : Send(c, FALSE, FALSE)
  \/ \E c \in Pick(OrNone(Live)) : c # "none" /\ Send(c, FALSE, FALSE)
  \/ \E c \in Pick(Channels) : \E r \in Pick(0..heads[c].lc) : RandomElement(1..3) = 1 /\ Retain(c, r)
  \/ \E c \in Pick(Channels), r \in Pick(0..MaxSeq) : RandomElement(1..8) = 1 /\ Retain(c, r)
  \* aimed: retention boundary exactly at / just below / just above the head's last message
  \/ \E c \in Pick(Channels), dlt \in Pick({-1, 0, 1}) :
        RandomElement(1..3) = 1 /\ heads[c].lm + dlt >= 0 /\ Retain(c, heads[c].lm + dlt)
  \/ \E c \in Pick(Channels), v \in Pick(Avails) : RandomElement(1..3) = 1 /\ SetAvail(c, v)
  \/ \E c \in Pick(Channels) : heads[c].avail # "ok" /\ SetAvail(c, "ok")
  \/ \E c \in Pick(Channels) : RandomElement(1..4) = 1 /\ Leave(c)
  \/ \E c \in Pick(Channels) : Join(c)
  \/ \E c \in Pick(Channels) : RandomElement(1..2) = 1 /\ ClearUnread(c)
  \/ \E c \in Pick(OrNone(Live)) : c # "none" /\ RandomElement(1..3) = 1 /\ ClearUnread(c)
  \/ \E c \in Pick(Channels), n \in Pick(0..(MaxSeq + 1)) : SetUnread(c, n)
  \* aimed: ask for a tail that is just inside / at / beyond what is still unread or committed
  \/ \E c \in Pick(OrNone(Live)) : c # "none" /\
        \E n \in Pick({UnreadOf(rows[c], heads[c]) + dlt : dlt \in {-2, -1, 0, 1}} \cap Nat) : SetUnread(c, n)
  \/ \E c \in Pick(OrNone(Live)) : c # "none" /\
        \E n \in Pick({heads[c].lc + dlt : dlt \in {-1, 0, 1}} \cap Nat) : SetUnread(c, n)
  \/ \E c \in Pick(Channels) : RandomElement(1..3) = 1 /\ Delete(c)
  \/ \E c \in Pick(OrNone(Live)) : c # "none" /\ RandomElement(1..4) = 1 /\ Delete(c)
  \/ \E c \in Pick(Channels) : Activate(c)

SimNext == SimStep /\ hist' = Append(hist, [ev |-> ev', st |-> Proj'])
\* TLC evaluates the invariant on every candidate successor; printing the common prefix
\* one level later yields exactly one behaviour of Depth steps per simulated run (the
\* runner removes the identical lines).
Emit    == Len(hist) = Depth + 2 => PrintT("BEH " \o ToJson([steps |-> SubSeq(hist, 1, Depth + 1)]))
===============================================================================

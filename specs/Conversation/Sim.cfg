INIT SimInit
NEXT SimNext
CONSTANTS
  Channels = {"c1", "c2"}
  MaxSeq = 12
  Ns = {0}
  InitMax = 5
  Draws = 400
  Depth = 25
INVARIANT Emit
CHECK_DEADLOCK FALSE

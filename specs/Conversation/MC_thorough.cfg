\* Exhaustive: one channel, sequences <= 3.
SPECIFICATION Spec
CONSTANTS
  Channels = {"c1"}
  MaxSeq = 3
  Ns = {0, 1, 2, 3, 4}
VIEW MCView
INVARIANTS TypeOK C34_UnreadExact C34_LastVisible
PROPERTIES C34_ClearZero C34_SetAtMost C34_OnlyOwn C34_CursorsMonotone
CHECK_DEADLOCK FALSE

\* leader changes: log <= 3, 2 elections (stale leaders keep futures, entries overwritten by the new term), no crash.
SPECIFICATION Spec
CONSTANTS
  Node = {n1, n2, n3}
  Nil = Nil
  Fine = {n1}
  MaxIdx = 3
  MaxTerm = 2
  MaxCrash = 0
  MaxCompact = 0
  MaxQ = 1
  Durables = {TRUE}
  Variant = ""
SYMMETRY SymCoarse
VIEW View
INVARIANTS TypeOK C12_SameAtIndex C12_InOrderOnce C12_NoSkipBelowApplied C12_AppliedDurable C12_SnapshotExact C12_ResumeSkipsNothing C12_ResumeReappliesNothing C12_AckedIsChosen ChosenDurable RestartSafe
PROPERTIES C12_PersistBeforeApply
CHECK_DEADLOCK FALSE

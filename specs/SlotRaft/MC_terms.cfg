\* leader changes: log <= 3, 2 elections (stale leaders keep futures, entries overwritten by the new term), no crash.
\* measured 2026-09-22: 1,731,569 distinct states, 2,519,818 generated, depth 96, 10 min 28 s (5 workers, loaded box)
\* (with MaxCrash = 1: 5,518,714 distinct states, 25 min 40 s - too long for the tier)
SPECIFICATION Spec
CONSTANTS
  Node = {n1, n2, n3}
  Nil = Nil
  Fine = {n1}
  MaxIdx = 3
  MaxTerm = 2
  MaxCrash = 0
  MaxCompact = 0
  MaxQ = 1
  Durables = {TRUE}
  Variant = ""
SYMMETRY SymCoarse
VIEW View
INVARIANTS TypeOK C12_SameAtIndex C12_InOrderOnce C12_NoSkipBelowApplied C12_AppliedDurable C12_SnapshotExact C12_ResumeSkipsNothing C12_ResumeReappliesNothing C12_AckedIsChosen ChosenDurable RestartSafe
PROPERTIES C12_PersistBeforeApply
CHECK_DEADLOCK FALSE

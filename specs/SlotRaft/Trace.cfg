SPECIFICATION TraceSpec
CONSTANTS
  Node = {1, 2, 3}
  Nil = 0
  Fine = {1, 2, 3}
  MaxIdx = 1000000
  MaxTerm = 1000000
  MaxCrash = 1000000
  MaxCompact = 1000000
  MaxQ = 1000000
  Durables = {TRUE}
  Variant = ""
CONSTRAINT Track
INVARIANTS Obligations Conform C12_SameAtIndex C12_InOrderOnce C12_NoSkipBelowApplied C12_AppliedDurable C12_SnapshotExact C12_ResumeSkipsNothing C12_ResumeReappliesNothing C12_AckedIsChosen
POSTCONDITION Accepted
CHECK_DEADLOCK FALSE

-------------------------------- MODULE Trace --------------------------------
(* Trace validation for SlotRaft: executions of three real multiraft.Runtime replicas of one Slot
   Raft group (pkg/slot/multiraft on pkg/raftlog Pebble storage), recorded at the Storage and
   StateMachine seams and at Runtime.Propose / Future.Wait
   (runner/harness/slotraft; one global order).

   The trace spec re-uses the durable and state-machine variables of SlotRaft (wal, snapD, appD, sm,
   smI), `acks`, `up`, `cfg` and every C12 formula of SlotRaft.  The volatile pipeline stages and the
   raft core are not observable and stay untouched.  `chosen` is INFERRED: it is a partial function,
   index -> what the first replica that handled the index found there (applied command, or the
   non-command entry it passed over); every later replica, snapshot and acknowledgement must agree.

   Checked after every recorded step:
     * the SlotRaft invariants C12_SameAtIndex, C12_InOrderOnce, C12_NoSkipBelowApplied,
       C12_AppliedDurable, C12_SnapshotExact, C12_ResumeSkipsNothing, C12_ResumeReappliesNothing,
       C12_AckedIsChosen on the reconstructed state;
     * per-event obligations (variable `bad` names the first one that failed):
         Apply    every command was saved by this replica before (exact index, term, payload); its
                  index is beyond everything the replica handled (no repeat, right order, also right
                  after a restart), every index passed over is a saved non-command entry; nothing is
                  applied after a restart before the persisted snapshot was restored; the command was
                  proposed by someone;
         Mark     MarkApplied(i) never moves past an index whose command was not applied;
         Save     a locally taken snapshot is the replica's state machine content and its index is
                  not beyond what the state machine handled;
         Restore  the snapshot restored is the one this replica persisted; outside a restart it never
                  moves the state machine backwards;
         Result   a future resolved with (index, term) names exactly the entry applied there and it
                  carries this proposal's command.
   wal is kept UNTRIMMED here (entries persisted and not overwritten since), because an entry may
   legitimately be applied after a later snapshot save trimmed it from disk.                        *)
EXTENDS SlotRaft, Json

VARIABLES l,            \* next line of the trace
          pos,          \* [Node -> highest index the replica's state machine handled (applied, passed over, restored)]
          proposed,     \* command ids handed to Runtime.Propose
          needRestore,  \* [Node -> restarted with a persisted snapshot that was not restored yet]
          bad           \* "" or the name of the violated obligation

tvars == <<vars, l, pos, proposed, needRestore, bad>>

Log == ndJsonDeserialize("trace.ndjson")

Recs(s) == [k \in 1..Len(s) |-> [i |-> s[k][1], t |-> s[k][2], v |-> s[k][3]]]
Ent(r)  == [t |-> r.t, v |-> r.v]
\* function index -> [t, v] of a sequence of [i, t, v]
AsFn(rs) == [j \in {rs[k].i : k \in 1..Len(rs)} |-> Ent(rs[CHOOSE k \in 1..Len(rs) : rs[k].i = j])]
Merge(f, g) == [j \in DOMAIN f \cup DOMAIN g |-> IF j \in DOMAIN f THEN f[j] ELSE g[j]]
Increasing(rs) == \A k \in 2..Len(rs) : rs[k].i > rs[k - 1].i
\* first failing obligation of a sequence of <<name, holds>>
FirstBad(obs) == IF \A k \in 1..Len(obs) : obs[k][2] THEN ""
                 ELSE obs[CHOOSE k \in 1..Len(obs) : ~obs[k][2] /\ \A m \in 1..(k - 1) : obs[m][2]][1]

TraceInit ==
  /\ Init
  /\ l = 1
  /\ pos = [n \in Node |-> 0]
  /\ proposed = {}
  /\ needRestore = [n \in Node |-> FALSE]
  /\ bad = ""

Core == <<term, leader, nextV, mem, first, stable, commit, handed, dapp, acked, snapIn, rd, applyQ, fut, commitD, crashes, compacts>>

Reset0(e) ==
  /\ cfg' = [durable |-> e.cfg.durable]
  /\ chosen' = <<>>
  /\ up' = [n \in Node |-> TRUE]
  /\ wal' = [n \in Node |-> <<>>]
  /\ snapD' = [n \in Node |-> NoSnap]
  /\ appD' = [n \in Node |-> 0]
  /\ sm' = [n \in Node |-> <<>>]
  /\ smI' = [n \in Node |-> 0]
  /\ acks' = {}
  /\ pos' = [n \in Node |-> 0]
  /\ proposed' = {}
  /\ needRestore' = [n \in Node |-> FALSE]
  /\ bad' = ""
  /\ UNCHANGED Core

\* indexes in lo..hi that are not among the listed commands must be saved non-command entries
Passed(lo, hi, rs) == {j \in lo..hi : \A k \in 1..Len(rs) : rs[k].i # j}
SavedOK(n, S)  == \A j \in S : j \in DOMAIN wal[n]                      \* handled only what it saved
PassOK(n, S)   == \A j \in S : j \in DOMAIN wal[n] => wal[n][j].v = 0     \* passed over no command
AgreeOK(f)     == \A j \in DOMAIN f : j \in DOMAIN chosen => chosen[j] = f[j]
PassFn(n, S)   == [j \in {x \in S : x \in DOMAIN wal[n]} |-> wal[n][j]]

TPropose(e) ==
  /\ proposed' = proposed \cup {e.v}
  /\ bad' = ""
  /\ UNCHANGED <<cfg, chosen, up, wal, snapD, appD, sm, smI, acks, pos, needRestore, Core>>

TSave(e) ==
  LET n == e.n
      ents == Recs(e.ents)
      entF == AsFn(ents)
      fst  == IF Len(ents) = 0 THEN 0 ELSE ents[1].i
      cont == Recs(e.sc)
      own  == e.sn > 0 /\ e.so = n
  IN
  /\ wal' = [wal EXCEPT ![n] = IF Len(ents) = 0 THEN @
                               ELSE Merge(entF, [j \in {x \in DOMAIN @ : x < fst} |-> @[j]])]
  /\ snapD' = [snapD EXCEPT ![n] = IF e.sn > 0 THEN [i |-> e.sn, c |-> cont] ELSE @]
  /\ bad' = FirstBad(<< <<"C12_SnapshotBeyondStateMachine", own => e.sn <= pos[n]>>,
                        <<"C12_SnapshotIsNotTheStateMachine", own => cont = sm[n]>> >>)
  /\ UNCHANGED <<cfg, chosen, up, appD, sm, smI, acks, pos, proposed, needRestore, Core>>

TApply(e) ==
  LET n == e.n
      cmds == Recs(e.cmds)
      lastI == cmds[Len(cmds)].i
      gaps == Passed(pos[n] + 1, lastI, cmds)
      cmdF == AsFn(cmds)
      newF == Merge(cmdF, PassFn(n, gaps))
  IN
  /\ sm' = [sm EXCEPT ![n] = @ \o cmds]
  /\ smI' = [smI EXCEPT ![n] = lastI]
  /\ pos' = [pos EXCEPT ![n] = IF lastI > @ THEN lastI ELSE @]
  /\ chosen' = Merge(chosen, newF)
  /\ bad' = FirstBad(<<
       <<"C12_AppliedBeforeSnapshotRestoredAtRestart", ~needRestore[n]>>,
       <<"C12_InOrderOnce_ReappliedOrOutOfOrder", cmds[1].i > pos[n] /\ Increasing(cmds)>>,
       <<"C12_PersistBeforeApply", SavedOK(n, gaps) /\ \A k \in 1..Len(cmds) :
             cmds[k].i \in DOMAIN wal[n] /\ wal[n][cmds[k].i] = Ent(cmds[k])>>,
       <<"C12_InOrderOnce_Skipped", PassOK(n, gaps)>>,
       <<"C12_SameAtIndex", AgreeOK(newF)>>,
       <<"C12_AppliedNeverProposed", \A k \in 1..Len(cmds) : cmds[k].v \in proposed>> >>)
  /\ UNCHANGED <<cfg, up, wal, snapD, appD, acks, proposed, needRestore, Core>>

TMark(e) ==
  LET n == e.n
      gaps == (pos[n] + 1)..e.i
      newF == PassFn(n, gaps)
  IN
  /\ appD' = [appD EXCEPT ![n] = e.i]
  /\ pos' = [pos EXCEPT ![n] = IF e.i > @ THEN e.i ELSE @]
  /\ chosen' = Merge(chosen, newF)
  /\ bad' = FirstBad(<< <<"C12_PersistBeforeApply", SavedOK(n, gaps)>>,
                        <<"C12_MarkAppliedAheadOfApply", PassOK(n, gaps)>>,
                        <<"C12_SameAtIndex", AgreeOK(newF)>> >>)
  /\ UNCHANGED <<cfg, up, wal, snapD, sm, smI, acks, proposed, needRestore, Core>>

TRestore(e) ==
  LET n == e.n
      cont == Recs(e.cmds)
      newF == AsFn(cont)
  IN
  /\ sm' = [sm EXCEPT ![n] = cont]
  /\ smI' = [smI EXCEPT ![n] = e.i]
  /\ pos' = [pos EXCEPT ![n] = e.i]
  /\ needRestore' = [needRestore EXCEPT ![n] = FALSE]
  /\ chosen' = Merge(chosen, newF)
  /\ bad' = FirstBad(<<
       <<"C12_RestoredSnapshotNotPersisted", snapD[n].i = e.i /\ snapD[n].c = cont>>,
       <<"C12_RestoreMovesStateMachineBack", e.boot \/ e.i > pos[n]>>,
       <<"C12_SameAtIndex", AgreeOK(newF)>> >>)
  /\ UNCHANGED <<cfg, up, wal, snapD, appD, acks, proposed, Core>>

TResult(e) ==
  IF e.ok
    THEN /\ acks' = acks \cup {[i |-> e.res.i, t |-> e.res.t, v |-> e.v]}
         /\ bad' = FirstBad(<<
              <<"C12_AckedUnproposed", e.v \in proposed>>,
              <<"C12_AckedIsNotWhatIsAppliedThere",
                  e.res.i \in DOMAIN chosen /\ chosen[e.res.i] = [t |-> e.res.t, v |-> e.v]>> >>)
         /\ UNCHANGED <<cfg, chosen, up, wal, snapD, appD, sm, smI, pos, proposed, needRestore, Core>>
    ELSE /\ bad' = ""
         /\ UNCHANGED <<cfg, chosen, up, wal, snapD, appD, sm, smI, acks, pos, proposed, needRestore, Core>>

TCrash(e) ==
  /\ up' = [up EXCEPT ![e.n] = FALSE]
  /\ bad' = ""
  /\ UNCHANGED <<cfg, chosen, wal, snapD, appD, sm, smI, acks, pos, proposed, needRestore, Core>>

TRestart(e) ==
  /\ up' = [up EXCEPT ![e.n] = TRUE]
  /\ needRestore' = [needRestore EXCEPT ![e.n] = snapD[e.n].i > 0]
  /\ bad' = ""
  /\ UNCHANGED <<cfg, chosen, wal, snapD, appD, sm, smI, acks, pos, proposed, Core>>

Step(e) ==
  CASE e.a = "Init"    -> Reset0(e)
    [] e.a = "Propose" -> TPropose(e)
    [] e.a = "Save"    -> TSave(e)
    [] e.a = "Apply"   -> TApply(e)
    [] e.a = "Mark"    -> TMark(e)
    [] e.a = "Restore" -> TRestore(e)
    [] e.a = "Result"  -> TResult(e)
    [] e.a = "Crash"   -> TCrash(e)
    [] e.a = "Restart" -> TRestart(e)

TraceNext == l <= Len(Log) /\ l' = l + 1 /\ Step(Log[l].ev) /\ ev' = Log[l].ev

TraceSpec == TraceInit /\ [][TraceNext]_tvars

Obligations == bad = ""

\* the state machine's own account of its content after the step (harness) = the specification's
Conform ==
  l > 1 /\ Log[l - 1].ev.a \in {"Apply", "Restore"} =>
    Log[l - 1].st.len = Len(sm[Log[l - 1].ev.n])

\* Acceptance: every line was consumed.
HW       == TLCSet(1, IF l > TLCGet(1) THEN l ELSE TLCGet(1))
Track    == HW
Accepted == TLCGet(1) = Len(Log) + 1
ASSUME TLCSet(1, 0)
===============================================================================

\* every replica explored step by step (no Ready-atomic replicas): log <= 2, 1 election, 1 crash.
\* measured 2026-09-22 (before the eager-coarse reduction, same for Fine = Node): 228,272 distinct states
SPECIFICATION Spec
CONSTANTS
  Node = {n1, n2, n3}
  Nil = Nil
  Fine = {n1, n2, n3}
  MaxIdx = 2
  MaxTerm = 1
  MaxCrash = 1
  MaxCompact = 0
  MaxQ = 1
  Durables = {TRUE}
  Variant = ""
SYMMETRY SymAll
VIEW View
INVARIANTS TypeOK C12_SameAtIndex C12_InOrderOnce C12_NoSkipBelowApplied C12_AppliedDurable C12_SnapshotExact C12_ResumeSkipsNothing C12_ResumeReappliesNothing C12_AckedIsChosen ChosenDurable RestartSafe
PROPERTIES C12_PersistBeforeApply
CHECK_DEADLOCK FALSE

\* non-vacuity: the deliberate defect "AckBeforePersist" must violate a C12 formula (expected: ChosenDurable)
SPECIFICATION Spec
CONSTANTS
  Node = {n1, n2, n3}
  Nil = Nil
  Fine = {n1}
  MaxIdx = 2
  MaxTerm = 1
  MaxCrash = 1
  MaxCompact = 0
  MaxQ = 1
  Durables = {TRUE}
  Variant = "AckBeforePersist"
SYMMETRY SymCoarse
VIEW View
INVARIANTS TypeOK C12_SameAtIndex C12_InOrderOnce C12_NoSkipBelowApplied C12_AppliedDurable C12_SnapshotExact C12_ResumeSkipsNothing C12_ResumeReappliesNothing C12_AckedIsChosen ChosenDurable RestartSafe
PROPERTIES C12_PersistBeforeApply
CHECK_DEADLOCK FALSE

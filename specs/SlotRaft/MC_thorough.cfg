\* thorough exhaustive config: log <= 3, 1 election, 1 crash, 1 local compaction (+ snapshot transfer to a
\* lagging follower, restart on a snapshot), production state machine flavour.
\* measured 2026-09-22: 1,070,700 distinct states, 1,616,077 generated, depth 90, 5 min 42 s (5 workers, loaded box)
SPECIFICATION Spec
CONSTANTS
  Node = {n1, n2, n3}
  Nil = Nil
  Fine = {n1}
  MaxIdx = 3
  MaxTerm = 1
  MaxCrash = 1
  MaxCompact = 1
  MaxQ = 1
  Durables = {TRUE}
  Variant = ""
SYMMETRY SymCoarse
VIEW View
INVARIANTS TypeOK C12_SameAtIndex C12_InOrderOnce C12_NoSkipBelowApplied C12_AppliedDurable C12_SnapshotExact C12_ResumeSkipsNothing C12_ResumeReappliesNothing C12_AckedIsChosen ChosenDurable RestartSafe
PROPERTIES C12_PersistBeforeApply
CHECK_DEADLOCK FALSE

\* quick exhaustive config: 3 replicas (n1 step by step, n2/n3 Ready-atomic), log <= 2, 1 election, 1 crash,
\* async apply queue of 1, both state machine flavours.
\* measured 2026-09-22: 44,038 distinct states, 64,494 generated, depth 59, 2 min 11 s (6 workers, box at load 60)
SPECIFICATION Spec
CONSTANTS
  Node = {n1, n2, n3}
  Nil = Nil
  Fine = {n1}
  MaxIdx = 2
  MaxTerm = 1
  MaxCrash = 1
  MaxCompact = 0
  MaxQ = 1
  Durables = {TRUE, FALSE}
  Variant = ""
SYMMETRY SymCoarse
VIEW View
INVARIANTS TypeOK C12_SameAtIndex C12_InOrderOnce C12_NoSkipBelowApplied C12_AppliedDurable C12_SnapshotExact C12_ResumeSkipsNothing C12_ResumeReappliesNothing C12_AckedIsChosen ChosenDurable RestartSafe
PROPERTIES C12_PersistBeforeApply
CHECK_DEADLOCK FALSE

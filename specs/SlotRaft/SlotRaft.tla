------------------------------- MODULE SlotRaft -------------------------------
(* One Slot Raft group of pkg/slot/multiraft: the Ready pipeline and the durability bookkeeping that
   WuKongIM owns around etcd-raft (go.etcd.io/raft/v3, trusted).

   Consensus is an ABSTRACT CORE (trusted): `chosen` is the sequence of decided entries, once
   decided never changed; an index is decided when a quorum ACKNOWLEDGED the leader's log up to it
   (Choose), a new leader holds every decided entry (Elect), followers adopt prefixes of the
   leader's log (Replicate / SendSnap).  What the acknowledgements, the durable log and the state
   machine actually contain is decided by the PIPELINE, which is modelled step by step as
   processReady / runApplyTask / compactLogAt / newSlot execute it:

     GetReady -> Persist (Storage.Save) -> Send (acknowledge) ->
        async : Enqueue (+Advance) ... TaskApply (StateMachine.ApplyBatch) -> TaskMark (MarkApplied,
                futures resolved by (index, term))
        sync  : [SyncRestore (StateMachine.Restore)] -> SyncApply -> SyncMarkAdvance
     Compact (snapshot at the durable applied index, trims the log), Crash, Restart (replay after
     snapshot index / max(storage applied, state machine's durable applied)).

   A slot worker handles one Ready at a time and steps queued messages only between Readys, so the
   raft-core actions of a node require that node to have no Ready in flight; apply tasks and
   compaction run concurrently with later Readys.

   State machine content is the full ordered list of applied commands [i, t, v]; a snapshot carries
   that list (so "same command at every index, in order, once, no gap" is one equation:
   sm[n] = commands of chosen[1..smI[n]]).  Entry values: v > 0 command id, v = 0 no-op (new
   leader's empty entry; never handed to the state machine, like conf changes).

   `Variant` names one deliberate defect ("" = the code as it is) used to show that the
   properties are falsifiable by exactly the mistakes C12 is meant to catch. *)
EXTENDS Integers, Sequences, FiniteSets, TLC

CONSTANTS
  Node,        \* replicas, e.g. {1, 2, 3}
  Nil,         \* "no node"
  Fine,        \* replicas explored at step granularity (see Transient); the others handle a Ready atomically
  MaxIdx,      \* bound on log length
  MaxTerm,     \* bound on elections
  MaxCrash,    \* bound on crashes
  MaxCompact,  \* bound on local compactions
  MaxQ,        \* async apply tasks accepted per slot before falling back to synchronous apply
  Durables,    \* set of BOOLEAN: state machine persists its applied index atomically (production) or not
  Variant      \* "" | "ApplyBeforePersist" | "MarkAhead" | "NoTermCheck" | "AckBeforePersist"
               \*    | "CompactAtHanded" | "ResumeIgnoresSM"

VARIABLES
  cfg,      \* [durable |-> BOOLEAN]
  \* ---- abstract consensus core
  term,     \* highest term started
  leader,   \* leader of `term` (Nil = none)
  chosen,   \* Seq([t, v]): decided entries (index = position)
  nextV,    \* next fresh command id
  \* ---- raft node, volatile
  mem,      \* [Node -> Seq([t, v])] raft log incl. unstable entries (compacted prefix kept as ghost)
  first,    \* [Node -> first index still held by the in-memory log] (compaction point + 1)
  stable,   \* [Node -> index through which mem is persisted]
  commit,   \* [Node -> commit index known]
  handed,   \* [Node -> index through which committed entries were handed out in a Ready]
  dapp,     \* [Node -> slot.durableAppliedIndex]
  acked,    \* [Node -> Seq([t, v])] log prefix this node acknowledged as appended (sent messages)
  snapIn,   \* [Node -> snapshot received from the leader, not yet in a Ready]
  rd,       \* [Node -> Ready being processed]
  applyQ,   \* [Node -> Seq of async apply tasks [lo, hi, ph]]
  fut,      \* [Node -> set of tracked proposal futures [i, t, v]]
  up,       \* [Node -> BOOLEAN]
  \* ---- durable (pkg/raftlog) and state machine
  wal,      \* [Node -> function index -> [t, v]] persisted entries
  commitD,  \* [Node -> persisted HardState.Commit]
  snapD,    \* [Node -> [i, c]] persisted snapshot: index and state machine content
  appD,     \* [Node -> persisted applied index (Storage.MarkApplied)]
  sm,       \* [Node -> Seq([i, t, v])] commands applied to the state machine, in order
  smI,      \* [Node -> state machine's applied index (last command or restored snapshot index)]
  \* ---- history
  acks,     \* set of [i, t, v]: futures resolved successfully
  crashes, compacts,
  ev        \* last step (observation only)

cvars == <<term, leader, chosen, nextV>>
nvars == <<mem, first, stable, commit, handed, dapp, acked, snapIn, rd, applyQ, fut, up>>
dvars == <<wal, commitD, snapD, appD, sm, smI>>
hvars == <<acks, crashes, compacts>>
vars  == <<cfg, cvars, nvars, dvars, hvars, ev>>
View  == <<cfg, cvars, nvars, dvars, hvars>>
SymAll    == Permutations(Node)           \* replicas are interchangeable (model values) ...
SymCoarse == Permutations(Node \ Fine)    \* ... within their exploration class

-------------------------------------------------------------------------------
Max2(a, b) == IF a >= b THEN a ELSE b
Min2(a, b) == IF a <= b THEN a ELSE b
Quorums == {Q \in SUBSET Node : 2 * Cardinality(Q) > Cardinality(Node)}
NoSnap == [i |-> 0, c |-> <<>>]
NoRd   == [st |-> "none", lo |-> 0, hi |-> 0, h |-> 0, c |-> 0, snap |-> NoSnap, enq |-> FALSE]
IsPrefix(a, b) == Len(a) <= Len(b) /\ SubSeq(b, 1, Len(a)) = a
\* length of the common prefix of two logs
CP(a, b) == LET m == Min2(Len(a), Len(b))
            IN CHOOSE k \in 0..m : /\ SubSeq(a, 1, k) = SubSeq(b, 1, k)
                                   /\ (k = m \/ a[k + 1] # b[k + 1])
Idx(lo, hi) == IF hi < lo THEN <<>> ELSE [k \in 1..(hi - lo + 1) |-> lo + k - 1]
\* the commands among f[lo..hi] (f: function over at least lo..hi), in order
CmdsOf(f, lo, hi) ==
  LET ix == SelectSeq(Idx(lo, hi), LAMBDA j : f[j].v > 0)
  IN [k \in 1..Len(ix) |-> [i |-> ix[k], t |-> f[ix[k]].t, v |-> f[ix[k]].v]]
LastI(s) == IF Len(s) = 0 THEN 0 ELSE s[Len(s)].i
WalLast(n) == IF DOMAIN wal[n] = {} THEN snapD[n].i
              ELSE Max2(snapD[n].i, CHOOSE j \in DOMAIN wal[n] : \A k \in DOMAIN wal[n] : k <= j)

\* where a restart resumes applying (newSlot)
Resume(n) ==
  IF snapD[n].i > 0 THEN snapD[n].i
  ELSE IF cfg.durable /\ Variant # "ResumeIgnoresSM" THEN Max2(appD[n], smI[n]) ELSE appD[n]

\* Exploration order for the exhaustive runs (a partial-order reduction, not a change of behaviour):
\*  * Persist, Send and the asynchronous Enqueue are the deterministic local continuation of
\*    GetReady and commute with every step of the other replicas (a crash between them equals a
\*    crash before GetReady or a lost message), so a Ready is taken through them before anyone else
\*    moves - unless the explored defect variant lives exactly there;
\*  * replicas outside `Fine` take a Ready as soon as there is work and handle it and its apply task
\*    without interleaving with the others (coarse); replicas in `Fine` are explored step by step (every crash point, apply tasks
\*    concurrent with later Readys, compaction concurrent with a Ready).
HasWork(n) == stable[n] < Len(mem[n]) \/ handed[n] < commit[n] \/ snapIn[n].i > 0
SplitVariant == Variant \in {"ApplyBeforePersist", "AckBeforePersist"}
Transient(n) ==
  \/ ~SplitVariant /\ rd[n].st \in {"new", "saved"}
  \/ ~SplitVariant /\ rd[n].st = "sent" /\ rd[n].snap.i = 0
        /\ (rd[n].c = rd[n].h \/ Len(applyQ[n]) < MaxQ)                 \* only Enqueue can follow
  \/ n \notin Fine /\ (rd[n].st # "none" \/ applyQ[n] # <<>> \/ (up[n] /\ HasWork(n)))
Quiet(n) == \A m \in Node \ {n} : ~Transient(m)
Quiet0   == \A m \in Node : ~Transient(m)
\* apply-worker steps of a Fine replica interleave with its Ready only at the non-transient stages
QuietW(n) == Quiet(n) /\ (n \in Fine => ~Transient(n))

Init ==
  /\ cfg \in [durable : Durables]
  /\ term = 0 /\ leader = Nil /\ chosen = <<>> /\ nextV = 1
  /\ mem = [n \in Node |-> <<>>]
  /\ first = [n \in Node |-> 1]
  /\ stable = [n \in Node |-> 0]
  /\ commit = [n \in Node |-> 0]
  /\ handed = [n \in Node |-> 0]
  /\ dapp = [n \in Node |-> 0]
  /\ acked = [n \in Node |-> <<>>]
  /\ snapIn = [n \in Node |-> NoSnap]
  /\ rd = [n \in Node |-> NoRd]
  /\ applyQ = [n \in Node |-> <<>>]
  /\ fut = [n \in Node |-> {}]
  /\ up = [n \in Node |-> TRUE]
  /\ wal = [n \in Node |-> <<>>]
  /\ commitD = [n \in Node |-> 0]
  /\ snapD = [n \in Node |-> NoSnap]
  /\ appD = [n \in Node |-> 0]
  /\ sm = [n \in Node |-> <<>>]
  /\ smI = [n \in Node |-> 0]
  /\ acks = {} /\ crashes = 0 /\ compacts = 0
  /\ ev = [a |-> "Init", cfg |-> cfg]

-------------------------------------------------------------------------------
\* ---- abstract consensus core (trusted) ------------------------------------------------------

\* A candidate wins an election: trusted precondition = it holds every decided entry and a quorum
\* is reachable.  It appends its empty entry.
Elect(n) ==
  /\ term < MaxTerm /\ Quiet0 /\ up[n] /\ rd[n].st = "none" /\ leader # n
  /\ Len(mem[n]) < MaxIdx
  /\ \E Q \in Quorums : n \in Q /\ \A m \in Q : up[m]
  /\ Len(mem[n]) >= Len(chosen) /\ SubSeq(mem[n], 1, Len(chosen)) = chosen
  /\ term' = term + 1 /\ leader' = n
  /\ mem' = [mem EXCEPT ![n] = Append(@, [t |-> term + 1, v |-> 0])]
  /\ UNCHANGED <<cfg, chosen, nextV, first, stable, commit, handed, dapp, acked, snapIn, rd, applyQ, fut, up, dvars, hvars>>
  /\ ev' = [a |-> "Elect", n |-> n]

\* Runtime.Propose on the leader: rawNode.Propose + future tracked with (index, term).
Propose(n) ==
  /\ up[n] /\ Quiet0 /\ leader = n /\ rd[n].st = "none" /\ Len(mem[n]) < MaxIdx
  /\ mem' = [mem EXCEPT ![n] = Append(@, [t |-> term, v |-> nextV])]
  /\ fut' = [fut EXCEPT ![n] = @ \cup {[i |-> Len(mem[n]) + 1, t |-> term, v |-> nextV]}]
  /\ nextV' = nextV + 1
  /\ UNCHANGED <<cfg, term, leader, chosen, first, stable, commit, handed, dapp, acked, snapIn, rd, applyQ, up, dvars, hvars>>
  /\ ev' = [a |-> "Propose", n |-> n, v |-> nextV]

\* A former leader notices it lost leadership: leadership-dependent futures fail (ErrNotLeader).
\* Optional at any time - the code does not always fail them (observeQueuedMessageLocked path).
StepDown(n) ==
  /\ up[n] /\ Quiet0 /\ leader # n /\ fut[n] # {}
  /\ fut' = [fut EXCEPT ![n] = {}]
  /\ UNCHANGED <<cfg, cvars, mem, first, stable, commit, handed, dapp, acked, snapIn, rd, applyQ, up, dvars, hvars>>
  /\ ev' = [a |-> "StepDown", n |-> n]

\* MsgApp/heartbeat from the leader reaches follower f: f adopts the first k entries of the leader's
\* log (k bounded by what the leader itself acknowledged = sent after persisting) and learns the
\* commit index.  Loss, duplication, delay and reordering are the free choice of k and of the moment.
Replicate(l, f, k) ==
  /\ leader = l /\ Quiet0 /\ l # f /\ up[l] /\ up[f] /\ rd[f].st = "none" /\ snapIn[f].i = 0
  /\ k <= Len(acked[l]) /\ IsPrefix(acked[l], mem[l])
  /\ k >= commit[f]
  /\ LET new == SubSeq(mem[l], 1, k)
         cp  == CP(mem[f], new)
         keep == IsPrefix(new, mem[f])           \* nothing new in the message: log unchanged
         log2 == IF keep THEN mem[f] ELSE new
         c2   == Max2(commit[f], Min2(k, commit[l]))
     IN /\ cp + 1 >= first[l]                    \* the leader still holds the entries to send
        /\ (log2 # mem[f] \/ c2 # commit[f])
        /\ mem' = [mem EXCEPT ![f] = log2]
        /\ stable' = [stable EXCEPT ![f] = IF keep THEN @ ELSE Min2(@, cp)]
        /\ commit' = [commit EXCEPT ![f] = c2]
  /\ UNCHANGED <<cfg, cvars, first, handed, dapp, acked, snapIn, rd, applyQ, fut, up, dvars, hvars>>
  /\ ev' = [a |-> "Replicate", l |-> l, f |-> f, k |-> k]

\* MsgSnap: the leader compacted what f needs and sends its snapshot; f's raft log restarts there.
SendSnap(l, f) ==
  /\ leader = l /\ Quiet0 /\ l # f /\ up[l] /\ up[f] /\ rd[f].st = "none" /\ snapIn[f].i = 0
  /\ snapD[l].i > commit[f]
  /\ CP(mem[f], mem[l]) + 1 < first[l]
  /\ snapIn' = [snapIn EXCEPT ![f] = snapD[l]]
  /\ mem' = [mem EXCEPT ![f] = SubSeq(mem[l], 1, snapD[l].i)]
  /\ stable' = [stable EXCEPT ![f] = snapD[l].i]
  /\ commit' = [commit EXCEPT ![f] = snapD[l].i]
  /\ UNCHANGED <<cfg, cvars, first, handed, dapp, acked, rd, applyQ, fut, up, dvars, hvars>>
  /\ ev' = [a |-> "SendSnap", l |-> l, f |-> f]

\* The leader counts acknowledgements: index i of its own term is decided.
Decidable(l, i) ==
  /\ mem[l][i].t = term
  /\ \E Q \in Quorums : \A n \in Q : Len(acked[n]) >= i /\ SubSeq(acked[n], 1, i) = SubSeq(mem[l], 1, i)
Choose(i) ==
  LET l == leader IN
  /\ l # Nil /\ Quiet0 /\ up[l] /\ rd[l].st = "none"
  /\ i > Len(chosen) /\ i <= Len(mem[l])
  /\ Decidable(l, i) /\ \A j \in (i + 1)..Len(mem[l]) : ~Decidable(l, j)   \* (the largest such index)
  /\ chosen' = SubSeq(mem[l], 1, i)
  /\ commit' = [commit EXCEPT ![l] = i]
  /\ UNCHANGED <<cfg, term, leader, nextV, mem, first, stable, handed, dapp, acked, snapIn, rd, applyQ, fut, up, dvars, hvars>>
  /\ ev' = [a |-> "Choose", i |-> i]

-------------------------------------------------------------------------------
\* ---- the Ready pipeline (slot worker) ----------------------------------------------------------

GetReady(n) ==
  /\ up[n] /\ Quiet(n) /\ rd[n].st = "none"
  /\ HasWork(n)
  /\ rd' = [rd EXCEPT ![n] = [st |-> "new", lo |-> stable[n] + 1, hi |-> Len(mem[n]),
                              h |-> Max2(handed[n], snapIn[n].i), c |-> commit[n],
                              snap |-> snapIn[n], enq |-> FALSE]]
  /\ handed' = [handed EXCEPT ![n] = Max2(commit[n], snapIn[n].i)]
  /\ snapIn' = [snapIn EXCEPT ![n] = NoSnap]
  /\ acked' = IF Variant = "AckBeforePersist" THEN [acked EXCEPT ![n] = mem[n]] ELSE acked
  /\ UNCHANGED <<cfg, cvars, mem, first, stable, commit, dapp, applyQ, fut, up, dvars, hvars>>
  /\ ev' = [a |-> "GetReady", n |-> n]

\* Storage.Save(HardState, Entries, Snapshot) - one atomic batch of pkg/raftlog.
Persist(n) ==
  LET r == rd[n]
      base == IF r.snap.i > 0 THEN {j \in DOMAIN wal[n] : j > r.snap.i} ELSE DOMAIN wal[n]
      ents == {j \in r.lo..r.hi : j > r.snap.i}
      dom  == IF ents = {} THEN base ELSE {j \in base : j < r.lo} \cup ents
  IN
  /\ up[n] /\ Quiet(n) /\ r.st = "new"
  /\ wal' = [wal EXCEPT ![n] = [j \in dom |-> IF j \in ents THEN mem[n][j] ELSE wal[n][j]]]
  /\ snapD' = [snapD EXCEPT ![n] = IF r.snap.i > 0 THEN r.snap ELSE @]
  /\ commitD' = [commitD EXCEPT ![n] = Max2(r.c, r.snap.i)]
  /\ stable' = [stable EXCEPT ![n] = r.hi]
  /\ first' = [first EXCEPT ![n] = IF r.snap.i > 0 THEN r.snap.i + 1 ELSE @]
  /\ rd' = [rd EXCEPT ![n].st = "saved"]
  /\ UNCHANGED <<cfg, cvars, mem, commit, handed, dapp, acked, snapIn, applyQ, fut, up, appD, sm, smI, hvars>>
  /\ ev' = [a |-> "Save", n |-> n, lo |-> r.lo, hi |-> r.hi, sn |-> r.snap.i]

\* transport.Send: responses leave only now, so what they acknowledge is durable.
Send(n) ==
  /\ up[n] /\ Quiet(n) /\ rd[n].st = "saved"
  /\ acked' = [acked EXCEPT ![n] = SubSeq(mem[n], 1, rd[n].hi)]
  /\ rd' = [rd EXCEPT ![n].st = "sent"]
  /\ UNCHANGED <<cfg, cvars, mem, first, stable, commit, handed, dapp, snapIn, applyQ, fut, up, dvars, hvars>>
  /\ ev' = [a |-> "Send", n |-> n]

Task(lo, hi) == [lo |-> lo, hi |-> hi, ph |-> 0]

\* processReadyAsyncNormal: hand the committed span to the apply pipeline and Advance at once.
Enqueue(n) ==
  LET r == rd[n] IN
  /\ up[n] /\ Quiet(n) /\ r.st = "sent" /\ r.snap.i = 0
  /\ r.c > r.h => (r.enq \/ Len(applyQ[n]) < MaxQ)
  /\ applyQ' = IF r.c > r.h /\ ~r.enq THEN [applyQ EXCEPT ![n] = Append(@, Task(r.h + 1, r.c))] ELSE applyQ
  /\ rd' = [rd EXCEPT ![n] = NoRd]
  /\ UNCHANGED <<cfg, cvars, mem, first, stable, commit, handed, dapp, acked, snapIn, fut, up, dvars, hvars>>
  /\ ev' = [a |-> "Enqueue", n |-> n]

\* Variant: the committed span is handed to the apply pipeline before Storage.Save.
EarlyEnqueue(n) ==
  LET r == rd[n] IN
  /\ Variant = "ApplyBeforePersist"
  /\ up[n] /\ Quiet(n) /\ r.st = "new" /\ r.snap.i = 0 /\ r.c > r.h /\ ~r.enq /\ Len(applyQ[n]) < MaxQ
  /\ applyQ' = [applyQ EXCEPT ![n] = Append(@, Task(r.h + 1, r.c))]
  /\ rd' = [rd EXCEPT ![n].enq = TRUE]
  /\ UNCHANGED <<cfg, cvars, mem, first, stable, commit, handed, dapp, acked, snapIn, fut, up, dvars, hvars>>
  /\ ev' = [a |-> "Enqueue", n |-> n]

\* ErrSlotBusy: the apply queue is full, this Ready is applied synchronously (after the queue drained).
GoSync(n) ==
  /\ up[n] /\ Quiet(n) /\ rd[n].st = "sent" /\ rd[n].snap.i = 0 /\ rd[n].c > rd[n].h /\ ~rd[n].enq
  /\ Len(applyQ[n]) >= MaxQ
  /\ rd' = [rd EXCEPT ![n].st = "sync"]
  /\ UNCHANGED <<cfg, cvars, mem, first, stable, commit, handed, dapp, acked, snapIn, applyQ, fut, up, dvars, hvars>>
  /\ ev' = [a |-> "GoSync", n |-> n]

\* processReadySynchronously with a snapshot: waitApplyIdle, StateMachine.Restore.
SyncRestore(n) ==
  /\ up[n] /\ Quiet(n) /\ rd[n].st = "sent" /\ rd[n].snap.i > 0 /\ applyQ[n] = <<>>
  /\ sm' = [sm EXCEPT ![n] = rd[n].snap.c]
  /\ smI' = [smI EXCEPT ![n] = rd[n].snap.i]
  /\ rd' = [rd EXCEPT ![n].st = "restored"]
  /\ UNCHANGED <<cfg, cvars, mem, first, stable, commit, handed, dapp, acked, snapIn, applyQ, fut, up, wal, commitD, snapD, appD, hvars>>
  /\ ev' = [a |-> "Restore", n |-> n, i |-> rd[n].snap.i, boot |-> FALSE]

SyncApply(n) ==
  LET r == rd[n]
      cmds == CmdsOf(mem[n], r.h + 1, r.c)
  IN
  /\ up[n] /\ Quiet(n) /\ r.st \in {"sync", "restored"} /\ applyQ[n] = <<>>
  /\ sm' = [sm EXCEPT ![n] = @ \o cmds]
  /\ smI' = [smI EXCEPT ![n] = IF Len(cmds) > 0 THEN LastI(cmds) ELSE @]
  /\ rd' = [rd EXCEPT ![n].st = "applied"]
  /\ UNCHANGED <<cfg, cvars, mem, first, stable, commit, handed, dapp, acked, snapIn, applyQ, fut, up, wal, commitD, snapD, appD, hvars>>
  /\ ev' = [a |-> "Apply", n |-> n, cmds |-> cmds]

\* futures of node n resolved by applying lo..hi: looked up by index, confirmed by term
Resolved(n, lo, hi) ==
  {f \in fut[n] : f.i >= lo /\ f.i <= hi /\ (Variant = "NoTermCheck" \/ mem[n][f.i].t = f.t)}
AckOf(n, F) == {[i |-> f.i, t |-> mem[n][f.i].t, v |-> f.v] : f \in F}

\* slot.markApplied: skipped when the state machine's own durable index already equals it
MarkTo(n, i) == IF cfg.durable /\ smI[n] = i THEN appD[n] ELSE i

SyncMarkAdvance(n) ==
  LET r == rd[n]
      last == Max2(r.c, r.h)
      res == Resolved(n, r.h + 1, r.c)
  IN
  /\ up[n] /\ Quiet(n) /\ r.st = "applied"
  /\ appD' = [appD EXCEPT ![n] = IF last > dapp[n] THEN MarkTo(n, last) ELSE @]
  /\ dapp' = [dapp EXCEPT ![n] = Max2(@, last)]
  /\ acks' = acks \cup AckOf(n, res)
  /\ fut' = [fut EXCEPT ![n] = @ \ res]
  /\ rd' = [rd EXCEPT ![n] = NoRd]
  /\ UNCHANGED <<cfg, cvars, mem, first, stable, commit, handed, acked, snapIn, applyQ, up, wal, commitD, snapD, sm, smI, crashes, compacts>>
  /\ ev' = [a |-> "Mark", n |-> n, i |-> last]

\* ---- apply worker -------------------------------------------------------------------------------

TaskApply(n) ==
  LET tk == Head(applyQ[n])
      cmds == CmdsOf(mem[n], tk.lo, tk.hi)
  IN
  /\ up[n] /\ QuietW(n) /\ applyQ[n] # <<>>
  /\ tk.ph = 0 \/ (Variant = "MarkAhead" /\ tk.ph = 2)
  /\ sm' = [sm EXCEPT ![n] = @ \o cmds]
  /\ smI' = [smI EXCEPT ![n] = IF Len(cmds) > 0 THEN LastI(cmds) ELSE @]
  /\ applyQ' = [applyQ EXCEPT ![n] = IF tk.ph = 2 THEN Tail(@) ELSE <<[tk EXCEPT !.ph = 1]>> \o Tail(@)]
  /\ UNCHANGED <<cfg, cvars, mem, first, stable, commit, handed, dapp, acked, snapIn, rd, fut, up, wal, commitD, snapD, appD, hvars>>
  /\ ev' = [a |-> "Apply", n |-> n, cmds |-> cmds]

TaskMark(n) ==
  LET tk == Head(applyQ[n])
      res == Resolved(n, tk.lo, tk.hi)
      early == Variant = "MarkAhead" /\ tk.ph = 0
  IN
  /\ up[n] /\ QuietW(n) /\ applyQ[n] # <<>>
  /\ tk.ph = 1 \/ early
  /\ appD' = [appD EXCEPT ![n] = IF tk.hi > dapp[n] THEN MarkTo(n, tk.hi) ELSE @]
  /\ dapp' = [dapp EXCEPT ![n] = Max2(@, tk.hi)]
  /\ acks' = acks \cup AckOf(n, res)
  /\ fut' = [fut EXCEPT ![n] = @ \ res]
  /\ applyQ' = [applyQ EXCEPT ![n] = IF early THEN <<[tk EXCEPT !.ph = 2]>> \o Tail(@) ELSE Tail(@)]
  /\ UNCHANGED <<cfg, cvars, mem, first, stable, commit, handed, acked, snapIn, rd, up, wal, commitD, snapD, sm, smI, crashes, compacts>>
  /\ ev' = [a |-> "Mark", n |-> n, i |-> tk.hi]

\* compactLogAt at the durable applied index (end of an apply task, or CompactLog with the apply
\* queue idle): state machine snapshot, Storage.Save(snapshot), in-memory log compacted.
Compact(n) ==
  LET at == IF Variant = "CompactAtHanded" THEN handed[n] ELSE dapp[n] IN
  /\ up[n] /\ Quiet0 /\ compacts < MaxCompact
  /\ IF applyQ[n] = <<>> THEN TRUE ELSE Head(applyQ[n]).ph = 0   \* not in the middle of an apply task
  /\ rd[n].st \in {"none", "new", "saved", "sent"}
  /\ at > snapD[n].i /\ at <= stable[n]
  /\ snapD' = [snapD EXCEPT ![n] = [i |-> at, c |-> sm[n]]]
  /\ appD' = [appD EXCEPT ![n] = IF cfg.durable THEN at ELSE @]
  /\ wal' = [wal EXCEPT ![n] = [j \in {k \in DOMAIN wal[n] : k > at} |-> wal[n][j]]]
  /\ first' = [first EXCEPT ![n] = at + 1]
  /\ compacts' = compacts + 1
  /\ UNCHANGED <<cfg, cvars, mem, stable, commit, handed, dapp, acked, snapIn, rd, applyQ, fut, up, commitD, sm, smI, acks, crashes>>
  /\ ev' = [a |-> "Save", n |-> n, lo |-> 1, hi |-> 0, sn |-> at]

\* ---- crash / restart -----------------------------------------------------------------------------

\* Process kill at any point (state machine with atomic applied index), or orderly Close (waits for
\* the slot and its apply tasks to become idle) for a plain state machine, whose contract has no
\* crash atomicity between ApplyBatch and MarkApplied.
Crash(n) ==
  /\ up[n] /\ Quiet0 /\ crashes < MaxCrash
  /\ ~cfg.durable => rd[n].st = "none" /\ applyQ[n] = <<>>
  /\ up' = [up EXCEPT ![n] = FALSE]
  /\ rd' = [rd EXCEPT ![n] = NoRd]
  /\ applyQ' = [applyQ EXCEPT ![n] = <<>>]
  /\ fut' = [fut EXCEPT ![n] = {}]
  /\ snapIn' = [snapIn EXCEPT ![n] = NoSnap]
  /\ leader' = IF leader = n THEN Nil ELSE leader
  /\ crashes' = crashes + 1
  /\ UNCHANGED <<cfg, term, chosen, nextV, mem, first, stable, commit, handed, dapp, acked, dvars, acks, compacts>>
  /\ ev' = [a |-> "Crash", n |-> n]

\* newSlot: load storage, resume after the snapshot (restoring it) or after the durable applied index.
Restart(n) ==
  LET s == snapD[n].i
      res == Resume(n)
      last == WalLast(n)
      log == [j \in 1..last |-> IF j <= s THEN (IF j <= Len(chosen) THEN chosen[j] ELSE [t |-> 0, v |-> 0])
                                ELSE wal[n][j]]
  IN
  /\ ~up[n] /\ Quiet0
  /\ \A j \in (s + 1)..last : j \in DOMAIN wal[n]
  /\ up' = [up EXCEPT ![n] = TRUE]
  /\ mem' = [mem EXCEPT ![n] = log]
  /\ stable' = [stable EXCEPT ![n] = last]
  /\ first' = [first EXCEPT ![n] = s + 1]
  /\ commit' = [commit EXCEPT ![n] = Max2(commitD[n], s)]
  /\ handed' = [handed EXCEPT ![n] = res]
  /\ dapp' = [dapp EXCEPT ![n] = res]
  /\ sm' = [sm EXCEPT ![n] = IF s > 0 THEN snapD[n].c ELSE @]
  /\ smI' = [smI EXCEPT ![n] = IF s > 0 THEN s ELSE @]
  /\ UNCHANGED <<cfg, cvars, acked, snapIn, rd, applyQ, fut, wal, commitD, snapD, appD, hvars>>
  /\ ev' = [a |-> "Restart", n |-> n, i |-> s]

Next ==
  \/ \E n \in Node : Elect(n)
  \/ \E n \in Node : Propose(n)
  \/ \E n \in Node : StepDown(n)
  \/ \E l, f \in Node, k \in 1..MaxIdx : Replicate(l, f, k)
  \/ \E l, f \in Node : SendSnap(l, f)
  \/ \E i \in 1..MaxIdx : Choose(i)
  \/ \E n \in Node : GetReady(n)
  \/ \E n \in Node : Persist(n)
  \/ \E n \in Node : Send(n)
  \/ \E n \in Node : Enqueue(n)
  \/ \E n \in Node : EarlyEnqueue(n)
  \/ \E n \in Node : GoSync(n)
  \/ \E n \in Node : SyncRestore(n)
  \/ \E n \in Node : SyncApply(n)
  \/ \E n \in Node : SyncMarkAdvance(n)
  \/ \E n \in Node : TaskApply(n)
  \/ \E n \in Node : TaskMark(n)
  \/ \E n \in Node : Compact(n)
  \/ \E n \in Node : Crash(n)
  \/ \E n \in Node : Restart(n)

Spec == Init /\ [][Next]_vars

-------------------------------------------------------------------------------
\* ---- property C12 --------------------------------------------------------------------------------
\* (all formulas speak about durable state, the state machines and `chosen` only, so the trace
\*  specification evaluates the same formulas on states reconstructed from the recorded events;
\*  there `chosen` is a partial function: what the first replica to handle an index found there)

Known(j) == j \in DOMAIN chosen

\* all replicas apply the same command (same index, term, payload) at each index
C12_SameAtIndex ==
  \A n \in Node : \A k \in 1..Len(sm[n]) :
     LET e == sm[n][k] IN Known(e.i) /\ chosen[e.i] = [t |-> e.t, v |-> e.v]

\* in index order, each once, none skipped: strictly increasing and nothing decided in between
C12_InOrderOnce ==
  \A n \in Node : \A k \in 1..Len(sm[n]) :
     LET prev == IF k = 1 THEN 0 ELSE sm[n][k - 1].i IN
     /\ sm[n][k].i > prev
     /\ \A j \in (prev + 1)..(sm[n][k].i - 1) : Known(j) /\ chosen[j].v = 0
\* ... and nothing decided between the last applied command and the state machine's applied index
C12_NoSkipBelowApplied ==
  \A n \in Node : /\ LastI(sm[n]) <= smI[n]
                  /\ \A j \in (LastI(sm[n]) + 1)..smI[n] : Known(j) /\ chosen[j].v = 0

\* an applied entry is durable on that replica (saved entry or covered by its snapshot)
C12_AppliedDurable ==
  \A n \in Node : \A k \in 1..Len(sm[n]) :
     LET e == sm[n][k] IN
     \/ e.i <= snapD[n].i
     \/ e.i \in DOMAIN wal[n] /\ wal[n][e.i] = [t |-> e.t, v |-> e.v]
C12_PersistBeforeApply ==
  [][ev'.a = "Apply" =>
       \A k \in 1..Len(ev'.cmds) :
          LET c == ev'.cmds[k] n == ev'.n IN
          \/ c.i <= snapD[n].i
          \/ c.i \in DOMAIN wal[n] /\ wal[n][c.i] = [t |-> c.t, v |-> c.v]]_vars

\* a persisted snapshot is exactly the decided commands up to its index
SnapshotExact(s) ==
  /\ \A k \in 1..Len(s.c) :
        /\ s.c[k].i <= s.i /\ Known(s.c[k].i) /\ chosen[s.c[k].i] = [t |-> s.c[k].t, v |-> s.c[k].v]
        /\ k > 1 => s.c[k].i > s.c[k - 1].i
  /\ \A j \in 1..s.i : Known(j) /\ chosen[j].v > 0 => \E k \in 1..Len(s.c) : s.c[k].i = j
C12_SnapshotExact == \A n \in Node : snapD[n].i > 0 => SnapshotExact(snapD[n])

\* where a restart would resume: nothing decided is skipped ...
C12_ResumeSkipsNothing ==
  \A n \in Node : snapD[n].i = 0 =>
     \A j \in (smI[n] + 1)..Resume(n) : Known(j) /\ chosen[j].v = 0
\* ... and nothing already applied is applied again (a node that is down restarts from here)
C12_ResumeReappliesNothing ==
  \A n \in Node : ~up[n] /\ snapD[n].i = 0 => Resume(n) >= LastI(sm[n])

\* a future resolved with (index, term): that proposal is what every replica applies there
C12_AckedIsChosen ==
  \A a \in acks : Known(a.i) /\ chosen[a.i] = [t |-> a.t, v |-> a.v]

\* assumption the trusted core relies on, provided by the pipeline (persist before acknowledging):
\* a decided entry is durable on a quorum
ChosenDurable ==
  \A i \in 1..Len(chosen) : \E Q \in Quorums : \A n \in Q :
     i <= snapD[n].i \/ (i \in DOMAIN wal[n] /\ wal[n][i] = chosen[i])
\* raft refuses to start with applied > committed or beyond the log
RestartSafe ==
  \A n \in Node : Resume(n) <= WalLast(n) /\ Resume(n) <= Max2(commitD[n], snapD[n].i)

\* bounds for the exhaustive runs (all growth is bounded by the action guards)
TypeOK ==
  /\ term \in 0..MaxTerm /\ leader \in Node \cup {Nil}
  /\ Len(chosen) <= MaxIdx
  /\ \A n \in Node : Len(mem[n]) <= MaxIdx /\ Len(applyQ[n]) <= MaxQ + 1 /\ stable[n] <= Len(mem[n])
===============================================================================

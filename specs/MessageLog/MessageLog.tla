------------------------------ MODULE MessageLog ------------------------------
(* The node-local message store (pkg/db/message): several channel logs sharing one
   physical engine, the secondary indexes, the per-channel negative membership filter
   for (sender, client number) keys, channel leases with the registry's warm state, and
   close/reopen of the database.  Properties C07 and C08 are stated at the end.

   Two API surfaces of the same storage code are bound to this one specification; the
   instance's surface is part of `cfg` (set in Init):
     "typed"   ChannelLog  (db.OpenNodeStore(..).Messages().Channel(..))
     "compat"  ChannelStore (message.Open(..).ForChannel(..)), the surface below
               pkg/channel/store/channel_adapter.go
   Where the two differ (truncate argument checks, adopting a retention boundary, what a
   checkpoint write validates) the action says so.

   Durable state, per channel c
     rows[c]   seq -> [id, from, no, p]       primary rows (p = payload variant)
     ret[c]    retention state [has, local, phys, rmax]
               local = adopted retention boundary, phys = physically trimmed through,
               rmax  = RetainedMaxSeq: keeps the log end when the tail rows are trimmed
     ckpt[c]   checkpoint register [has, hw]
     idem[c]   (from, no) -> [s, id, p]       unique idempotency index
     cli[c]    {<<no, seq>>}                  client-number index of sender-less rows
     snd[c]    {<<from, seq>>}                sender sequence index
   and idIdx: id -> [c, s], the node-wide message id index.
   Volatile state: mem[c] = [st, leo, fl, fk]: the canonical entry ("live", while
   open[c] > 0), or what the registry keeps of it after the last lease is reclaimed
   ("warm"): cached log end, filter-loaded flag, filter keys.  The real filter is a Bloom
   filter: it may additionally answer "maybe" for keys not in fk, which only costs a
   durable point read with the same outcome, so false positives (and saturation) are
   not observable and fk is the exact set of added keys.

   The log end is LogEnd(c) = Max(last stored row, ret.rmax): a prefix trim keeps the
   log end through rmax, and adopting a boundary above the last row raises the log end
   to that boundary.  Both are behaviours of the code and of this specification.

   The harness observes the full projection Proj (including LEO) of every channel that
   has an open lease after every step; the LEO of a fresh canonical entry is therefore
   recovered at OpenLease, and mem[c].leo is always defined for live and warm entries. *)
EXTENDS Integers, Sequences, FiniteSets, SequencesExt, FiniteSetsExt, TLC

CONSTANTS
  Chans,      \* set of channel names (strings)
  Ids,        \* message ids offered by the environment (positive integers)
  Froms,      \* sender uids offered, "" = no sender
  Nos,        \* client message numbers offered, "" = none
  Pays,       \* payload variants offered
  Surfaces,   \* subset of {"typed", "compat"}
  MaxSeq,     \* bound on the log end
  MaxBatch,   \* bound on records per append
  MaxOpen,    \* bound on simultaneously open leases per channel
  HWs,        \* checkpoint watermarks offered (positive integers)
  ProbeIds, ProbeFroms, ProbeNos,  \* sequences: the keys every projection looks up
  KeepRmaxVariant  \* FALSE.  TRUE = spec variant describing the code's typed TruncateFrom,
                   \* which leaves ret.rmax untouched (finding F-C07-1); used for rehearsal only.

VARIABLES rows, ret, ckpt, idem, cli, snd, idIdx, mem, open, dbOpen, cfg, ev

durable == <<rows, ret, ckpt, idem, cli, snd, idIdx>>
vars    == <<rows, ret, ckpt, idem, cli, snd, idIdx, mem, open, dbOpen, cfg, ev>>

Typed  == cfg.surface = "typed"
Compat == cfg.surface = "compat"

MaxOf(a, b) == IF a > b THEN a ELSE b
MinOf(a, b) == IF a < b THEN a ELSE b
SetMax(S)   == IF S = {} THEN 0 ELSE Max(S)

\* partial maps
Put(f, k, v) == [x \in DOMAIN f \cup {k} |-> IF x = k THEN v ELSE f[x]]
Del(f, K)    == [x \in DOMAIN f \ K |-> f[x]]
Empty        == [x \in {} |-> 0]

NoRet  == [has |-> FALSE, local |-> 0, phys |-> 0, rmax |-> 0]
NoCkpt == [has |-> FALSE, hw |-> 0]
NoMem  == [st |-> "none", leo |-> 0, fl |-> FALSE, fk |-> {}]

RowSeqs(c) == DOMAIN rows[c]
LastRow(c) == SetMax(RowSeqs(c))
LogEnd(c)  == MaxOf(LastRow(c), IF ret[c].has THEN ret[c].rmax ELSE 0)

HasKey(r) == r.from # "" /\ r.no # ""
KeyOf(r)  == <<r.from, r.no>>

Usable(c) == dbOpen /\ open[c] > 0
Leo(c)    == mem[c].leo

Init ==
  /\ rows  = [c \in Chans |-> Empty]
  /\ ret   = [c \in Chans |-> NoRet]
  /\ ckpt  = [c \in Chans |-> NoCkpt]
  /\ idem  = [c \in Chans |-> Empty]
  /\ cli   = [c \in Chans |-> {}]
  /\ snd   = [c \in Chans |-> {}]
  /\ idIdx = Empty
  /\ mem   = [c \in Chans |-> NoMem]
  /\ open  = [c \in Chans |-> 0]
  /\ dbOpen = TRUE
  /\ cfg \in [surface : Surfaces, ids : {ProbeIds}, froms : {ProbeFroms}, nos : {ProbeNos}]
  /\ ev = [a |-> "Init", cfg |-> cfg]

-------------------------------------------------------------------------------
(* Row validation of one append (append.go validateAppendRow), in batch order.  The
   result carries the filter as left behind: keys are added before the physical commit,
   also by a batch that fails later on. *)

Ok(fl, fk)  == [err |-> "", fl |-> fl, fk |-> fk]
Rej(fl, fk) == [err |-> "rejected", fl |-> fl, fk |-> fk]

CheckRow(c, mode, r, seq, seenIds, seenKeys, fl, fk) ==
  IF r.id \in seenIds THEN Rej(fl, fk)
  ELSE IF mode = "strict" /\ r.id \in DOMAIN idIdx
          /\ (idIdx[r.id].c # c \/ idIdx[r.id].s # seq) THEN Rej(fl, fk)
  ELSE IF ~HasKey(r) THEN Ok(fl, fk)
  ELSE IF KeyOf(r) \in seenKeys THEN Rej(fl, fk)
  ELSE IF mode = "trusted"
         THEN Ok(fl, IF fl THEN fk \cup {KeyOf(r)} ELSE fk)   \* keeps a loaded filter current
  ELSE LET fk1 == IF fl THEN fk ELSE fk \cup DOMAIN idem[c]   \* bounded rebuild by index scan
       IN IF KeyOf(r) \notin fk1
            THEN Ok(TRUE, fk1 \cup {KeyOf(r)})                \* durable read skipped
            ELSE IF KeyOf(r) \in DOMAIN idem[c] /\ idem[c][KeyOf(r)].s # seq
                   THEN Rej(TRUE, fk1)
                   ELSE Ok(TRUE, fk1 \cup {KeyOf(r)})

RECURSIVE Walk(_, _, _, _, _, _, _, _, _)
Walk(c, mode, recs, i, base, seenIds, seenKeys, fl, fk) ==
  IF i > Len(recs) THEN Ok(fl, fk)
  ELSE LET r == CheckRow(c, mode, recs[i], base + i - 1, seenIds, seenKeys, fl, fk)
       IN IF r.err # "" THEN r
          ELSE Walk(c, mode, recs, i + 1, base,
                    seenIds \cup {recs[i].id},
                    IF HasKey(recs[i]) THEN seenKeys \cup {KeyOf(recs[i])} ELSE seenKeys,
                    r.fl, r.fk)

Validate(c, mode, recs, base) == Walk(c, mode, recs, 1, base, {}, {}, mem[c].fl, mem[c].fk)

\* Staging of rows base..base+Len-1 (stageMessageRow: primary row + every index, one batch).
NewSeqs(recs, base) == base .. (base + Len(recs) - 1)
RowsAfter(c, recs, base) ==
  [s \in RowSeqs(c) \cup NewSeqs(recs, base) |->
     IF s \in NewSeqs(recs, base) THEN recs[s - base + 1] ELSE rows[c][s]]
RECURSIVE IdIdxAfter(_, _, _, _, _)
IdIdxAfter(f, c, recs, base, i) ==
  IF i > Len(recs) THEN f
  ELSE IdIdxAfter(Put(f, recs[i].id, [c |-> c, s |-> base + i - 1]), c, recs, base, i + 1)
RECURSIVE IdemAfter(_, _, _, _)
IdemAfter(f, recs, base, i) ==
  IF i > Len(recs) THEN f
  ELSE IdemAfter(IF HasKey(recs[i])
                   THEN Put(f, KeyOf(recs[i]), [s |-> base + i - 1, id |-> recs[i].id, p |-> recs[i].p])
                   ELSE f, recs, base, i + 1)
CliAfter(c, recs, base) ==
  cli[c] \cup {<<recs[i].no, base + i - 1>> : i \in {j \in 1..Len(recs) : recs[j].no # "" /\ recs[j].from = ""}}
SndAfter(c, recs, base) ==
  snd[c] \cup {<<recs[i].from, base + i - 1>> : i \in {j \in 1..Len(recs) : recs[j].from # ""}}

Stage(c, recs, base) ==
  /\ rows'  = [rows EXCEPT ![c] = RowsAfter(c, recs, base)]
  /\ idIdx' = IdIdxAfter(idIdx, c, recs, base, 1)
  /\ idem'  = [idem EXCEPT ![c] = IdemAfter(idem[c], recs, base, 1)]
  /\ cli'   = [cli EXCEPT ![c] = CliAfter(c, recs, base)]
  /\ snd'   = [snd EXCEPT ![c] = SndAfter(c, recs, base)]

\* Deletion of the rows with sequences in S (stageDeleteMessage: row + every index key
\* derived from the row's own fields, one batch).
Unstage(c, S) ==
  /\ rows'  = [rows EXCEPT ![c] = Del(rows[c], S)]
  /\ idIdx' = Del(idIdx, {rows[c][s].id : s \in S})
  /\ idem'  = [idem EXCEPT ![c] = Del(idem[c], {KeyOf(rows[c][s]) : s \in {t \in S : HasKey(rows[c][t])}})]
  /\ cli'   = [cli EXCEPT ![c] = cli[c] \ {<<rows[c][s].no, s>> : s \in S}]
  /\ snd'   = [snd EXCEPT ![c] = snd[c] \ {<<rows[c][s].from, s>> : s \in S}]

\* Environment contract of the append modes (C08): the server-allocated-id mode is only
\* offered ids that are not stored (the node allocator's guarantee, C30); the trusted
\* mode replays rows a leader already validated, so it is only offered rows whose id and
\* key are not stored.  Duplicates inside the batch are offered in every mode.
EnvOK(c, mode, recs) ==
  /\ mode \in {"alloc", "trusted"} => \A i \in 1..Len(recs) : recs[i].id \notin DOMAIN idIdx
  /\ mode = "trusted" => \A i \in 1..Len(recs) : HasKey(recs[i]) => KeyOf(recs[i]) \notin DOMAIN idem[c]

AppRes(err, base, n) ==
  IF err # "" \/ n = 0 THEN [err |-> err, base |-> 0, last |-> 0]
  ELSE [err |-> "", base |-> base, last |-> base + n - 1]

(* DoAppend(c, mode, base, recs): ChannelLog.Append / ChannelStore.Append,
   AppendServerAllocated, AppendTrusted.  base = 0: unpinned; base # 0 (typed only) must
   equal log end + 1. *)
DoAppend(c, mode, base, recs) ==
  /\ Usable(c)
  /\ EnvOK(c, mode, recs)
  /\ (Compat => base = 0)
  /\ Leo(c) + Len(recs) <= MaxSeq
  /\ LET exp == Leo(c) + 1
         v   == Validate(c, mode, recs, exp)
     IN IF base # 0 /\ base # exp
          THEN /\ ev' = [a |-> "Append", c |-> c, mode |-> mode, base |-> base, recs |-> recs,
                         res |-> AppRes("rejected", 0, 0)]
               /\ UNCHANGED <<durable, mem>>
        ELSE IF recs = <<>>
          THEN /\ ev' = [a |-> "Append", c |-> c, mode |-> mode, base |-> base, recs |-> recs,
                         res |-> AppRes("", 0, 0)]
               /\ UNCHANGED <<durable, mem>>
        ELSE IF v.err # ""
          THEN /\ ev' = [a |-> "Append", c |-> c, mode |-> mode, base |-> base, recs |-> recs,
                         res |-> AppRes(v.err, 0, 0)]
               /\ mem' = [mem EXCEPT ![c].fl = v.fl, ![c].fk = v.fk]
               /\ UNCHANGED durable
        ELSE /\ Stage(c, recs, exp)
             /\ mem' = [mem EXCEPT ![c].fl = v.fl, ![c].fk = v.fk, ![c].leo = exp + Len(recs) - 1]
             /\ ev' = [a |-> "Append", c |-> c, mode |-> mode, base |-> base, recs |-> recs,
                       res |-> AppRes("", exp, Len(recs))]
             /\ UNCHANGED <<ret, ckpt>>
  /\ UNCHANGED <<open, dbOpen, cfg>>

(* DoApply(c, mode, base, recs, hw): a follower apply; rows and the checkpoint watermark
   (hw > 0) are written in one batch.
     typed : ApplyFetch{BaseSeq: base, Records, Checkpoint{HW: hw}}, always trusted mode;
             rows are validated before the checkpoint.
     compat: StoreApplyFetch (mode "strict") / StoreApplyFetchTrusted; the records carry
             Index = base + i - 1 (0 when base = 0); CheckpointHW = hw only ever raises the
             stored watermark and is validated before the rows. *)
DoApply(c, mode, base, recs, hw) ==
  /\ Usable(c)
  /\ mode \in {"strict", "trusted"}
  /\ (Typed => mode = "trusted")
  /\ EnvOK(c, mode, recs)
  /\ Leo(c) + Len(recs) <= MaxSeq
  /\ LET exp    == Leo(c) + 1
         next   == Leo(c) + Len(recs)
         v      == Validate(c, mode, recs, exp)
         baseOK == base = 0 \/ base = exp \/ (Compat /\ recs = <<>>)
         hwBad  == hw > 0 /\ (hw > next \/ (Typed /\ ckpt[c].has /\ hw < ckpt[c].hw))
         hwSet  == hw > 0 /\ (Typed \/ ~ckpt[c].has \/ hw > ckpt[c].hw)
         \* first failing check, in the order of the surface
         err    == IF Typed
                     THEN (IF ~baseOK THEN "rejected" ELSE IF recs # <<>> /\ v.err # "" THEN v.err
                           ELSE IF hwBad THEN "rejected" ELSE "")
                     ELSE (IF hwBad THEN "rejected" ELSE IF ~baseOK THEN "rejected"
                           ELSE IF recs # <<>> /\ v.err # "" THEN v.err ELSE "")
         \* did row validation run (and leave its filter adds behind)?
         walked == recs # <<>> /\ (IF Typed THEN baseOK ELSE ~hwBad /\ baseOK)
     IN /\ ev' = [a |-> "Apply", c |-> c, mode |-> mode, base |-> base, recs |-> recs, hw |-> hw,
                  res |-> AppRes(err, exp, Len(recs))]
        /\ IF err # ""
             THEN /\ mem' = IF walked THEN [mem EXCEPT ![c].fl = v.fl, ![c].fk = v.fk] ELSE mem
                  /\ UNCHANGED durable
             ELSE /\ IF recs # <<>>
                       THEN /\ Stage(c, recs, exp)
                            /\ mem' = [mem EXCEPT ![c].fl = v.fl, ![c].fk = v.fk, ![c].leo = next]
                       ELSE UNCHANGED <<rows, idIdx, idem, cli, snd, mem>>
                  /\ ckpt' = IF hwSet THEN [ckpt EXCEPT ![c] = [has |-> TRUE, hw |-> hw]] ELSE ckpt
                  /\ UNCHANGED ret
  /\ UNCHANGED <<open, dbOpen, cfg>>

(* Truncate(c, to): keep sequences <= to.
     typed : TruncateFrom(to + 1); a target at or above the log end is a no-op.  Offered
             only at or above the adopted retention boundary (truncating into the trimmed
             prefix is outside the contract; the compat surface rejects it).
     compat: Truncate(to); above the log end or below the adopted boundary is rejected.
   The log end after a truncation is `to`: rmax is lowered with the rows. *)
Truncate(c, to) ==
  /\ Usable(c)
  /\ (Typed /\ ret[c].has => to >= ret[c].local)
  /\ LET leo == Leo(c)
         bad == Compat /\ (to > leo \/ (to < leo /\ ret[c].has /\ to < ret[c].local))
         S   == {s \in RowSeqs(c) : s > to}
     IN IF bad
          THEN /\ ev' = [a |-> "Truncate", c |-> c, to |-> to, res |-> [err |-> "rejected"]]
               /\ UNCHANGED <<durable, mem>>
        ELSE IF to >= leo
          THEN /\ ev' = [a |-> "Truncate", c |-> c, to |-> to, res |-> [err |-> ""]]
               /\ UNCHANGED <<durable, mem>>
        ELSE /\ Unstage(c, S)
             /\ ret' = IF ret[c].has /\ ret[c].rmax > to /\ ~(Typed /\ KeepRmaxVariant)
                         THEN [ret EXCEPT ![c].rmax = to] ELSE ret
             /\ mem' = [mem EXCEPT ![c].leo = to]
             /\ ev' = [a |-> "Truncate", c |-> c, to |-> to, res |-> [err |-> ""]]
             /\ UNCHANGED ckpt
  /\ UNCHANGED <<open, dbOpen, cfg>>

(* Adopt(c, through): compat AdoptRetentionBoundary.  Records the boundary; the log end
   never falls below it. *)
Adopt(c, through) ==
  /\ Usable(c) /\ Compat
  /\ through <= MaxSeq
  /\ IF through = 0
       THEN /\ ev' = [a |-> "Adopt", c |-> c, through |-> through, res |-> [err |-> "invalid"]]
            /\ UNCHANGED <<durable, mem>>
       ELSE LET r    == IF ret[c].has THEN ret[c] ELSE NoRet
                rmax == MaxOf(r.rmax, MaxOf(Leo(c), through))
            IN /\ ret' = [ret EXCEPT ![c] = [has |-> TRUE, local |-> MaxOf(r.local, through),
                                             phys |-> r.phys, rmax |-> rmax]]
               /\ mem' = [mem EXCEPT ![c].leo = MaxOf(Leo(c), rmax)]
               /\ ev' = [a |-> "Adopt", c |-> c, through |-> through, res |-> [err |-> ""]]
               /\ UNCHANGED <<rows, ckpt, idem, cli, snd, idIdx>>
  /\ UNCHANGED <<open, dbOpen, cfg>>

(* Trim(c, through, lim): physically delete rows at or below `through`, at most `lim`
   rows when lim > 0 (retention.go trimPrefixThroughLimit).
     typed : TrimPrefixThroughLimit adopts the boundary itself (through = 0: no-op).
     compat: TrimMessagesThroughLimit requires an already adopted boundary. *)
Trim(c, through, lim) ==
  /\ Usable(c)
  /\ through <= MaxSeq
  /\ LET r     == IF ret[c].has THEN ret[c] ELSE NoRet
         leo   == Leo(c)
         cand  == {s \in RowSeqs(c) : s > r.phys /\ s <= through}
         more  == lim > 0 /\ Cardinality(cand) > lim
         S     == IF more THEN {s \in cand : Cardinality({t \in cand : t <= s}) <= lim} ELSE cand
         dthru == SetMax(S)
         local == IF Typed THEN MaxOf(r.local, through) ELSE r.local
         rmax  == MaxOf(MaxOf(r.rmax, IF Typed THEN through ELSE 0), leo)
         phys  == IF ~more /\ through > r.phys THEN through
                  ELSE IF dthru > r.phys THEN dthru ELSE r.phys
         E(err, n, t, m) == [a |-> "Trim", c |-> c, through |-> through, lim |-> lim,
                             res |-> [err |-> err, deleted |-> n, through |-> t, more |-> m]]
     IN IF through = 0
          THEN /\ ev' = E(IF Typed THEN "" ELSE "invalid", 0, 0, FALSE)
               /\ UNCHANGED <<durable, mem>>
        ELSE IF Compat /\ through > r.local
          THEN /\ ev' = E("rejected", 0, 0, FALSE)
               /\ UNCHANGED <<durable, mem>>
        ELSE /\ Unstage(c, S)
             /\ ret' = [ret EXCEPT ![c] = [has |-> TRUE, local |-> local, phys |-> phys, rmax |-> rmax]]
             /\ mem' = [mem EXCEPT ![c].leo = MaxOf(leo, rmax)]
             /\ ev' = E("", Cardinality(S), dthru, more)
             /\ UNCHANGED ckpt
  /\ UNCHANGED <<open, dbOpen, cfg>>

(* Ckpt(c, hw): StoreCheckpoint, no validation.
   CkptMono(c, hw): typed StoreCheckpointMonotonic(cp, visibleHW = hw, leo = log end):
   rejected above the log end or below the stored watermark; compat
   StoreCheckpointHWMonotonic(hw): silently ignores a watermark that does not advance. *)
Ckpt(c, hw) ==
  /\ Usable(c)
  /\ ckpt' = [ckpt EXCEPT ![c] = [has |-> TRUE, hw |-> hw]]
  /\ ev' = [a |-> "Ckpt", c |-> c, hw |-> hw, res |-> [err |-> ""]]
  /\ UNCHANGED <<rows, ret, idem, cli, snd, idIdx, mem, open, dbOpen, cfg>>

CkptMono(c, hw) ==
  /\ Usable(c)
  /\ LET bad == Typed /\ (hw > Leo(c) \/ (ckpt[c].has /\ hw < ckpt[c].hw))
         set == IF Typed THEN ~bad ELSE (~ckpt[c].has \/ hw > ckpt[c].hw)
     IN /\ ckpt' = IF set THEN [ckpt EXCEPT ![c] = [has |-> TRUE, hw |-> hw]] ELSE ckpt
        /\ ev' = [a |-> "CkptMono", c |-> c, hw |-> hw,
                  res |-> [err |-> IF bad THEN "rejected" ELSE ""]]
  /\ UNCHANGED <<rows, ret, idem, cli, snd, idIdx, mem, open, dbOpen, cfg>>

(* Leases (channel_registry.go).  The first lease creates the canonical entry: from the
   warm state the registry kept, else cold (log end recovered from storage, filter not
   loaded).  Closing the last lease reclaims the entry and keeps its log end and filter
   warm.  Closing the database drops every entry and all warm state. *)
OpenLease(c) ==
  /\ dbOpen /\ open[c] < MaxOpen
  /\ open' = [open EXCEPT ![c] = @ + 1]
  /\ mem' = [mem EXCEPT ![c] =
               IF mem[c].st = "live" THEN mem[c]
               ELSE IF mem[c].st = "warm" THEN [mem[c] EXCEPT !.st = "live"]
               ELSE [st |-> "live", leo |-> LogEnd(c), fl |-> FALSE, fk |-> {}]]
  /\ ev' = [a |-> "OpenLease", c |-> c, res |-> [err |-> ""]]
  /\ UNCHANGED <<durable, dbOpen, cfg>>

CloseLease(c) ==
  /\ dbOpen /\ open[c] > 0
  /\ open' = [open EXCEPT ![c] = @ - 1]
  /\ mem' = IF open[c] = 1 THEN [mem EXCEPT ![c].st = "warm"] ELSE mem
  /\ ev' = [a |-> "CloseLease", c |-> c, res |-> [err |-> ""]]
  /\ UNCHANGED <<durable, dbOpen, cfg>>

CloseDB ==
  /\ dbOpen
  /\ dbOpen' = FALSE
  /\ open' = [c \in Chans |-> 0]
  /\ mem' = [c \in Chans |-> NoMem]
  /\ ev' = [a |-> "CloseDB", res |-> [err |-> ""]]
  /\ UNCHANGED <<durable, cfg>>

OpenDB ==
  /\ ~dbOpen
  /\ dbOpen' = TRUE
  /\ ev' = [a |-> "OpenDB", res |-> [err |-> ""]]
  /\ UNCHANGED <<durable, mem, open, cfg>>

-------------------------------------------------------------------------------
Recs    == [id : Ids, from : Froms, no : Nos, p : Pays]
Batches == UNION {[1..n -> Recs] : n \in 0..MaxBatch}
Modes   == {"strict", "alloc", "trusted"}

Next ==
  \/ \E c \in Chans, m \in Modes, recs \in Batches : DoAppend(c, m, 0, recs)
  \/ \E c \in Chans, b \in {0, 1}, recs \in Batches :          \* pinned base: wrong / right
        Len(recs) <= 1 /\ DoAppend(c, "strict", Leo(c) + b, recs)
  \/ \E c \in Chans, m \in {"strict", "trusted"}, recs \in Batches, hw \in {0} \cup HWs :
        DoApply(c, m, 0, recs, hw)
  \/ \E c \in Chans, b \in {0, 1}, recs \in Batches :
        Len(recs) <= 1 /\ DoApply(c, "trusted", Leo(c) + b, recs, 0)
  \/ \E c \in Chans, to \in 0..MaxSeq : Truncate(c, to)
  \/ \E c \in Chans, t \in 0..MaxSeq : Adopt(c, t)
  \/ \E c \in Chans, t \in 0..MaxSeq, lim \in {0, 1} : Trim(c, t, lim)
  \/ \E c \in Chans, hw \in HWs : Ckpt(c, hw) \/ CkptMono(c, hw)
  \/ \E c \in Chans : OpenLease(c) \/ CloseLease(c)
  \/ CloseDB \/ OpenDB

Spec == Init /\ [][Next]_vars

-------------------------------------------------------------------------------
(* Observable projection: what the exported read API returns, computed the way the code
   computes it (through the indexes, then the row).  -1 marks a reply in which the code
   reports a stale index (ErrCorruptState). *)

\* The projection is written over an explicit snapshot S of the variables so that the
\* behaviour generator can keep cheap snapshots and project them when it prints.
Cur == [rows |-> rows, ckpt |-> ckpt, idem |-> idem, cli |-> cli, snd |-> snd, idIdx |-> idIdx,
        mem |-> mem, open |-> open, dbOpen |-> dbOpen, cfg |-> cfg]

Desc(Q) == SetToSortSeq(Q, LAMBDA a, b : a > b)
Asc(Q)  == SetToSortSeq(Q, <)
FirstN(q, n) == SubSeq(q, 1, MinOf(n, Len(q)))

RowList(S, c) ==
  LET Q == Asc(DOMAIN S.rows[c])
  IN [i \in 1..Len(Q) |-> [seq |-> Q[i], id |-> S.rows[c][Q[i]].id, from |-> S.rows[c][Q[i]].from,
                           no |-> S.rows[c][Q[i]].no, p |-> S.rows[c][Q[i]].p]]

\* reverse scan from the log end (ReadReverse(0) / ListMessagesBySeq(0, reverse))
RevList(S, c) == Desc({s \in DOMAIN S.rows[c] : s <= S.mem[c].leo})

Window(S, c) == MaxOf(1, S.mem[c].leo - 3) .. S.mem[c].leo

BySeq(S, c) == LET W == Asc(Window(S, c) \cup {S.mem[c].leo + 1})
               IN [i \in 1..Len(W) |-> IF W[i] \in DOMAIN S.rows[c] THEN S.rows[c][W[i]].id ELSE 0]

ById(S, c, id) ==
  IF id \notin DOMAIN S.idIdx \/ S.idIdx[id].c # c THEN 0
  ELSE IF S.idIdx[id].s \in DOMAIN S.rows[c] /\ S.rows[c][S.idIdx[id].s].id = id THEN S.idIdx[id].s ELSE -1

IdemOf(S, c, f, n) ==
  IF <<f, n>> \notin DOMAIN S.idem[c] THEN 0
  ELSE LET h == S.idem[c][<<f, n>>]
           R == S.rows[c]
       IN IF h.s \in DOMAIN R /\ R[h.s].id = h.id /\ R[h.s].p = h.p
             /\ R[h.s].from = f /\ R[h.s].no = n THEN h.s ELSE -1

CliList(S, c, n) ==
  LET R == S.rows[c]
      A == {S.idem[c][k].s : k \in {k \in DOMAIN S.idem[c] : k[2] = n}}
      B == {e[2] : e \in {e \in S.cli[c] : e[1] = n}}
      Q == {s \in A : s \in DOMAIN R} \cup B
  IN IF \E s \in Q : s \notin DOMAIN R \/ R[s].no # n THEN << -1 >> ELSE Desc(Q)

SndLast(S, c, f, t) == SetMax({e[2] : e \in {e \in S.snd[c] : e[1] = f /\ e[2] <= t}})

Pages(S, c) ==
  LET W == Asc(Window(S, c))
      D == DOMAIN S.rows[c]
  IN [i \in 1..Len(W) |->
        [f |-> FirstN(Asc({s \in D : s >= W[i]}), 2),
         r |-> FirstN(Desc({s \in D : s <= W[i]}), 2)]]

ProjChan(S, c) ==
  [isOpen |-> TRUE,
   leo    |-> S.mem[c].leo,
   log    |-> RowList(S, c),
   rev    |-> RevList(S, c),
   bySeq  |-> BySeq(S, c),
   byId   |-> [i \in 1..Len(S.cfg.ids) |-> ById(S, c, S.cfg.ids[i])],
   byKey  |-> [i \in 1..Len(S.cfg.froms) |-> [j \in 1..Len(S.cfg.nos) |-> IdemOf(S, c, S.cfg.froms[i], S.cfg.nos[j])]],
   byNo   |-> [j \in 1..Len(S.cfg.nos) |-> CliList(S, c, S.cfg.nos[j])],
   bySender |-> [i \in 1..Len(S.cfg.froms) |->
               LET W == Asc(Window(S, c)) IN
               [k \in 1..(Len(W) + 1) |-> IF k <= Len(W) THEN SndLast(S, c, S.cfg.froms[i], W[k])
                                          ELSE SndLast(S, c, S.cfg.froms[i], MaxSeq + 1000000)]],
   pages  |-> Pages(S, c),
   cp     |-> [has |-> S.ckpt[c].has, hw |-> S.ckpt[c].hw]]

ProjS(S) == [c \in Chans |-> IF S.dbOpen /\ S.open[c] > 0 THEN ProjChan(S, c) ELSE [isOpen |-> FALSE]]
Proj == ProjS(Cur)

-------------------------------------------------------------------------------
\* Properties on the design.

TypeOK ==
  /\ \A c \in Chans :
       /\ open[c] \in 0..MaxOpen
       /\ mem[c].st \in {"none", "warm", "live"}
       /\ (mem[c].st = "live") = (open[c] > 0)
       /\ (~dbOpen => mem[c].st = "none")
       /\ (ret[c].has => ret[c].phys <= ret[c].local /\ ret[c].local <= ret[c].rmax /\ ret[c].local > 0)
       /\ (~ret[c].has => ret[c] = NoRet)

\* C07: the retained rows (above the adopted retention boundary; everything when no
\* boundary was adopted) are contiguous from the boundary to the last row, and the log end
\* is that last row, or the boundary / kept log end when the retained suffix is empty.
\* Rows at or below an adopted boundary are awaiting physical deletion: none is at or
\* below the physical trim point.
C07_Contiguous ==
  \A c \in Chans :
    LET lo    == ret[c].local
        Upper == {s \in RowSeqs(c) : s > lo}
    IN /\ Upper = {} \/ Upper = (lo + 1) .. LastRow(c)
       /\ \A s \in RowSeqs(c) : s > ret[c].phys
       /\ LogEnd(c) >= lo
       /\ (Upper # {} => LogEnd(c) = LastRow(c))
       /\ (ret[c].has => ret[c].rmax <= MaxOf(LastRow(c), lo))

\* C07: the cached (live or warm) log end is the log end storage would recover.
C07_CachedLogEnd == \A c \in Chans : mem[c].st # "none" => mem[c].leo = LogEnd(c)

\* C07: every index entry points to the stored row it was derived from and every stored
\* row has its entries (no entry survives its row, none is missing).
C07_IndexSound ==
  /\ \A id \in DOMAIN idIdx :
        idIdx[id].s \in RowSeqs(idIdx[id].c) /\ rows[idIdx[id].c][idIdx[id].s].id = id
  /\ \A c \in Chans :
       /\ \A s \in RowSeqs(c) :
            LET r == rows[c][s] IN
            /\ r.id \in DOMAIN idIdx /\ idIdx[r.id] = [c |-> c, s |-> s]
            /\ (HasKey(r) => KeyOf(r) \in DOMAIN idem[c]
                             /\ idem[c][KeyOf(r)] = [s |-> s, id |-> r.id, p |-> r.p])
            /\ (r.no # "" /\ r.from = "" => <<r.no, s>> \in cli[c])
            /\ (r.from # "" => <<r.from, s>> \in snd[c])
       /\ \A k \in DOMAIN idem[c] :
            idem[c][k].s \in RowSeqs(c) /\ KeyOf(rows[c][idem[c][k].s]) = k
       /\ \A e \in cli[c] : e[2] \in RowSeqs(c) /\ rows[c][e[2]].no = e[1] /\ rows[c][e[2]].from = ""
       /\ \A e \in snd[c] : e[2] \in RowSeqs(c) /\ rows[c][e[2]].from = e[1]

\* C07: the next append lands on log end + 1 and leaves every other row as it was.
LogEndP(c) == MaxOf(SetMax(DOMAIN rows'[c]), IF ret'[c].has THEN ret'[c].rmax ELSE 0)
C07_AppendAtEnd ==
  [][ev'.a \in {"Append", "Apply"} /\ ev'.res.err = "" /\ ev'.recs # <<>> =>
        /\ ev'.res.base = LogEnd(ev'.c) + 1
        /\ ev'.res.last = LogEndP(ev'.c)
        /\ \A s \in RowSeqs(ev'.c) : s \in DOMAIN rows'[ev'.c] /\ rows'[ev'.c][s] = rows[ev'.c][s]
        /\ \A i \in 1..Len(ev'.recs) : rows'[ev'.c][ev'.res.base + i - 1] = ev'.recs[i]
        /\ \A d \in Chans \ {ev'.c} : rows'[d] = rows[d]]_vars

\* C07: close and reopen (of leases or of the database) change nothing durable.
C07_ReopenNeutral ==
  [][ev'.a \in {"OpenLease", "CloseLease", "CloseDB", "OpenDB"} => durable' = durable]_vars

\* C08: a (sender, client number) pair identifies at most one stored row of a channel,
\* and a message id is stored at most once on the node.
C08_KeyUnique ==
  \A c \in Chans : \A s1, s2 \in RowSeqs(c) :
    s1 # s2 /\ HasKey(rows[c][s1]) /\ HasKey(rows[c][s2]) => KeyOf(rows[c][s1]) # KeyOf(rows[c][s2])
C08_IdOnce ==
  \A c1, c2 \in Chans : \A s1 \in RowSeqs(c1), s2 \in RowSeqs(c2) :
    rows[c1][s1].id = rows[c2][s2].id => c1 = c2 /\ s1 = s2

\* C08: the negative filter never misses a stored key (what makes skipping the durable
\* idempotency read sound), for live entries and for warm state handed to the next lease.
C08_FilterCovers ==
  \A c \in Chans : mem[c].st # "none" /\ mem[c].fl => DOMAIN idem[c] \subseteq mem[c].fk

\* C08: an append (any mode, any filter state) carrying a pair that is already stored, or
\* twice in the batch, or an id twice in the batch, or (strict mode) a stored id, is
\* rejected and changes nothing durable.
DupInBatch(recs) ==
  \E i, j \in 1..Len(recs) : i < j /\ (recs[i].id = recs[j].id
                                        \/ (HasKey(recs[i]) /\ HasKey(recs[j]) /\ KeyOf(recs[i]) = KeyOf(recs[j])))
C08_DuplicateRejected ==
  [][ev'.a \in {"Append", "Apply"} /\ ev'.recs # <<>>
       /\ (\/ DupInBatch(ev'.recs)
           \/ \E i \in 1..Len(ev'.recs) :
                 \/ HasKey(ev'.recs[i]) /\ KeyOf(ev'.recs[i]) \in DOMAIN idem[ev'.c]
                 \/ ev'.mode = "strict" /\ ev'.recs[i].id \in DOMAIN idIdx)
     => ev'.res.err = "rejected" /\ durable' = durable]_vars

View == <<rows, ret, ckpt, idem, cli, snd, idIdx, mem, open, dbOpen, cfg>>
===============================================================================

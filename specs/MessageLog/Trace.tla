-------------------------------- MODULE Trace --------------------------------
(* Trace validation: the NDJSON file written by the harness (one step per line, traces
   concatenated, each starting with an "Init" line that carries the instance's surface
   and probe lists) must be a behaviour of MessageLog with the exact-proposal
   path (MessageLogX).  The call arguments are bound from
   the log; reply and projection are then determined by the specification and compared in
   the invariant Conform, so a divergence is reported with the expected values. *)
EXTENDS MessageLogX, Json
VARIABLE l

Log == ndJsonDeserialize("trace.ndjson")

TraceProbeIds   == << 1 >>
TraceProbeFroms == << "u1" >>
TraceProbeNos   == << "n1" >>
TraceProbePids  == << 1 >>

TraceInit == InitX /\ l = 1

Reset0 ==
  /\ rows'  = [c \in Chans |-> Empty]
  /\ ret'   = [c \in Chans |-> NoRet]
  /\ ckpt'  = [c \in Chans |-> NoCkpt]
  /\ idem'  = [c \in Chans |-> Empty]
  /\ cli'   = [c \in Chans |-> {}]
  /\ snd'   = [c \in Chans |-> {}]
  /\ idIdx' = Empty
  /\ mem'   = [c \in Chans |-> NoMem]
  /\ open'  = [c \in Chans |-> 0]
  /\ dbOpen' = TRUE
  /\ ident' = [c \in Chans |-> Empty]
  /\ prop'  = [c \in Chans |-> Empty]
  /\ cfg' = Log[l].ev.cfg
  /\ ev' = Log[l].ev


Step(e) ==
  CASE e.a = "Init"       -> Reset0
    [] e.a = "Append"     -> XAppend(e.c, e.mode, e.base, e.recs)
    [] e.a = "Apply"      -> XApply(e.c, e.mode, e.base, e.recs, e.hw)
    [] e.a = "Truncate"   -> XTruncate(e.c, e.to)
    [] e.a = "Adopt"      -> XAdopt(e.c, e.through)
    [] e.a = "Trim"       -> XTrim(e.c, e.through, e.lim)
    [] e.a = "Ckpt"       -> XCkpt(e.c, e.hw)
    [] e.a = "CkptMono"   -> XCkptMono(e.c, e.hw)
    [] e.a = "OpenLease"  -> XOpenLease(e.c)
    [] e.a = "CloseLease" -> XCloseLease(e.c)
    [] e.a = "CloseDB"    -> XCloseDB
    [] e.a = "OpenDB"     -> XOpenDB
    [] e.a = "ExAppend"   -> ExAppend(e.c, e.pid, e.b, e.recs, e.mode, e.hw)
    [] e.a = "Replace"    -> Replace(e.c, e.keep, e.ps, e.hw)
    [] e.a = "ExBatch"    -> ExBatch(e.items)

TraceNext == l <= Len(Log) /\ l' = l + 1 /\ Step(Log[l].ev)

TraceSpec == TraceInit /\ [][TraceNext]_<<xvars, l>>

\* Deterministic step: the logged reply and projection must be the specification's.
Conform ==
  l > 1 /\ Log[l - 1].ev.a # "Init" =>
    /\ ev.res = Log[l - 1].ev.res
    /\ ProjX = Log[l - 1].st

\* Acceptance: every line was consumed.
HW       == TLCSet(1, IF l > TLCGet(1) THEN l ELSE TLCGet(1))
Track    == HW
Accepted == TLCGet(1) = Len(Log) + 1
ASSUME TLCSet(1, 0)
===============================================================================

\* multi-item StoreAppendBatch calls: one channel, two rows, two commands, three records (one key / two ids, one id / two keys,
\* nothing shared), pairs and triples of items:
\* 5,544 distinct / 996,190 generated states, depth 13, 66 s with 8 workers on an idle machine
SPECIFICATION Spec4
CONSTANTS
  Chans = {"c1"}
  Ids = {1, 2}
  Froms = {"u1"}
  Nos = {"n1", "n2"}
  Pays = {0}
  Surfaces = {"compat"}
  MaxSeq = 2
  MaxBatch = 1
  MaxOpen = 1
  HWs = {1}
  ProbeIds <- MCProbeIds
  ProbeFroms <- MCProbeFroms
  ProbeNos <- MCProbeNos
  KeepRmaxVariant = FALSE
  Pids = {1, 2}
  MaxRepl = 0
  ProbePids <- MCProbePids
  Recs <- MCRecs4
VIEW ViewX
INVARIANTS TypeOK C07_Contiguous C07_CachedLogEnd C07_IndexSound C08_KeyUnique C08_IdOnce C08_FilterCovers TypeOKX C07_ExactSound
PROPERTIES C07_AppendAtEnd C07_ReopenNeutral C08_DuplicateRejected C07_ExactAtEnd C07_ReplaceKeeps C07_ReopenNeutralX C08_DuplicateRejectedX C07_BatchOfOneIsExAppend C07_BatchAtEnd C08_BatchDuplicateRejected
CHECK_DEADLOCK FALSE

----------------------------- MODULE MessageLogX -----------------------------
(* The exact-proposal path of the compatibility surface, added to MessageLog
   (pkg/db/message compat.go StoreAppendBatch with ExactBaseOffset, proposal_manifest.go,
   recovery_replace.go; the path pkg/channel/store/channel_adapter.go drives for a channel
   leader: AppendLeader with a sealed proposal manifest, AlreadyDurable retries after a
   lost reply, ReplaceRecoverySuffix, LoadExactProposal).

   Added durable state, per channel c
     ident[c] : seq -> pid                      the entry identity stored with every exactly
                                                appended row (which command wrote it)
     prop[c]  : pid -> [base, last, recs]       the proposal record of a command (stored under
                                                its command id and under its last offset);
                                                recs is the content the manifest digest binds
   Neither is touched by a retention trim (the rows go, the identities stay); a truncation
   removes the complete proposals above its target and refuses a target inside one.

   Actions added (compat surface only)
     ExAppend(c, pid, b, recs, mode, hw)  one exact item: rows at b+1.., identities, proposal
         record and the raised checkpoint in one commit ("durable"); a stored command
         offered again is "already" durable and writes at most the checkpoint (a retry of
         the tail proposal or of an OLDER one: the log end, cached or durable, must not
         move); everything else is a conflict, a gap tells the caller where to resume
         (need = log end + 1).
     Replace(c, keep, ps, hw)  ReplaceRecoverySuffix, fenced on the frontier
         (LoadDurableFrontier) the caller read just before.
   and the exact view of a channel is part of the projection (ExProj): the frontier, the
   entry identities of the last rows, the proposal stored under every probe command
   (LoadDurableProposal, the read below LoadExactProposal).

   Environment contract of the exact path (obeyed by the behaviour generator and the
   drivers): a committed value never exceeds the proposal's own last offset; the
   server-allocated-id mode at the current frontier is only used with a command that is
   not stored (allocator-issued ids make the content-derived command id fresh), and, as
   for plain appends, with ids that are not stored. *)
EXTENDS MessageLog

CONSTANTS
  Pids,       \* command identities offered for exact appends (positive integers)
  ProbePids,  \* sequence: the commands every projection looks up
  MaxRepl     \* exhaustive runs: proposals per suffix replacement (0..2)

VARIABLES ident, prop

xvars    == <<rows, ret, ckpt, idem, cli, snd, idIdx, mem, open, dbOpen, cfg, ev, ident, prop>>
durableX == <<rows, ret, ckpt, idem, cli, snd, idIdx, ident, prop>>

KeepX == UNCHANGED <<ident, prop>>

InitX ==
  /\ rows  = [c \in Chans |-> Empty]
  /\ ret   = [c \in Chans |-> NoRet]
  /\ ckpt  = [c \in Chans |-> NoCkpt]
  /\ idem  = [c \in Chans |-> Empty]
  /\ cli   = [c \in Chans |-> {}]
  /\ snd   = [c \in Chans |-> {}]
  /\ idIdx = Empty
  /\ mem   = [c \in Chans |-> NoMem]
  /\ open  = [c \in Chans |-> 0]
  /\ dbOpen = TRUE
  /\ ident = [c \in Chans |-> Empty]
  /\ prop  = [c \in Chans |-> Empty]
  /\ cfg \in [surface : Surfaces, ids : {ProbeIds}, froms : {ProbeFroms}, nos : {ProbeNos}, pids : {ProbePids}]
  /\ ev = [a |-> "Init", cfg |-> cfg]

CkHW(c)  == IF ckpt[c].has THEN ckpt[c].hw ELSE 0
CkHWP(c) == IF ckpt'[c].has THEN ckpt'[c].hw ELSE 0

\* the tail of the log carries the proof LoadDurableFrontier needs: the proposal that ends
\* at the log end and the identity of its last entry
TailOKOf(ID, PR, leo) ==
  leo = 0 \/ (leo \in DOMAIN ID /\ ID[leo] \in DOMAIN PR /\ PR[ID[leo]].last = leo)
FrontierOK(c) == CkHW(c) <= Leo(c) /\ TailOKOf(ident[c], prop[c], Leo(c))

-------------------------------------------------------------------------------
\* The MessageLog actions leave identities and proposals alone, except truncation.

XAppend(c, mode, base, recs)    == DoAppend(c, mode, base, recs) /\ KeepX
XApply(c, mode, base, recs, hw) == DoApply(c, mode, base, recs, hw) /\ KeepX
XAdopt(c, t)                    == Adopt(c, t) /\ KeepX
XTrim(c, t, lim)                == Trim(c, t, lim) /\ KeepX
XCkpt(c, hw)                    == Ckpt(c, hw) /\ KeepX
XCkptMono(c, hw)                == CkptMono(c, hw) /\ KeepX
XOpenLease(c)                   == OpenLease(c) /\ KeepX
XCloseLease(c)                  == CloseLease(c) /\ KeepX
XCloseDB                        == CloseDB /\ KeepX
XOpenDB                         == OpenDB /\ KeepX

(* Truncation also removes the complete proposals above the target with their entry
   identities (stageTruncateDurableProposals, same batch); a target inside a proposal is
   refused. *)
XTruncate(c, to) ==
  LET leo      == Leo(c)
      refused  == Compat /\ (to > leo \/ (to < leo /\ ret[c].has /\ to < ret[c].local))
      cuts     == ~refused /\ to < leo
      straddle == \E q \in DOMAIN prop[c] : prop[c][q].base < to /\ to < prop[c][q].last
  IN IF cuts /\ straddle
       THEN /\ Usable(c)
            /\ (Typed /\ ret[c].has => to >= ret[c].local)
            /\ ev' = [a |-> "Truncate", c |-> c, to |-> to, res |-> [err |-> "rejected"]]
            /\ UNCHANGED <<durable, mem, open, dbOpen, cfg, ident, prop>>
       ELSE /\ Truncate(c, to)
            /\ ident' = IF cuts THEN [ident EXCEPT ![c] = Del(@, {s \in DOMAIN @ : s > to})] ELSE ident
            /\ prop'  = IF cuts THEN [prop EXCEPT ![c] = Del(@, {q \in DOMAIN @ : @[q].last > to})] ELSE prop

-------------------------------------------------------------------------------
(* ExAppend(c, pid, b, recs, mode, hw): StoreAppendBatch with one exact item
   (ExactBaseOffset, ExpectedBaseOffset = b, Proposal = the manifest of command pid sealed
   over recs and chained to the entry at b, Committed = hw).  The checks, in the order of
   prepareExactAppendRecordsLocked:
     gap (b above the log end)                          -> conflict, need = log end + 1
     predecessor: a proposal must end at b              -> conflict
     unless server-allocated ids at the frontier: the command / the last offset / the
       entry slots are either all stored with this very manifest (a replay) or all free
                                                         -> conflict
     committed: stored watermark above what will be visible -> conflict; else raised
     replay of a stored command                         -> already (log end untouched)
     a new command must sit exactly at the log end      -> conflict
     row validation as for a plain append               -> rejected, filter adds stay *)
XRes(err, out, b, l, need) == [err |-> err, out |-> out, base |-> b, last |-> l, need |-> need]

ExAppend(c, pid, b, recs, mode, hw) ==
  /\ Usable(c) /\ Compat
  /\ mode \in {"strict", "alloc"}
  /\ recs # <<>>
  /\ b + Len(recs) <= MaxSeq
  /\ hw <= b + Len(recs)
  /\ LET leo     == Leo(c)
         last    == b + Len(recs)
         present == pid \in DOMAIN prop[c]
         same    == present /\ prop[c][pid] = [base |-> b, last |-> last, recs |-> recs]
         predOK  == b = 0 \/ \E q \in DOMAIN prop[c] : prop[c][q].last = b
         lastTaken == \E q \in DOMAIN prop[c] \ {pid} : prop[c][q].last = last
         entTaken  == \E s \in (b + 1)..last : s \in DOMAIN ident[c]
         fresh   == mode = "alloc" /\ b = leo
         v       == Validate(c, mode, recs, b + 1)
         E(r)    == [a |-> "ExAppend", c |-> c, pid |-> pid, b |-> b, recs |-> recs, mode |-> mode, hw |-> hw, res |-> r]
         Refuse(need) == /\ ev' = E(XRes("rejected", "none", 0, 0, need))
                         /\ UNCHANGED <<durable, mem, ident, prop>>
         RaiseHW == IF hw > CkHW(c) THEN [ckpt EXCEPT ![c] = [has |-> TRUE, hw |-> hw]] ELSE ckpt
     IN /\ (fresh => ~present)
        /\ (~same => EnvOK(c, mode, recs))
        /\ IF b > leo THEN Refuse(leo + 1)
           ELSE IF ~predOK THEN Refuse(0)
           ELSE IF ~fresh /\ ((present /\ ~same) \/ (~present /\ (lastTaken \/ entTaken))) THEN Refuse(0)
           ELSE IF hw > 0 /\ CkHW(c) > MaxOf(leo, last) THEN Refuse(0)
           ELSE IF same
             THEN IF leo < last THEN Refuse(0)
                  ELSE /\ ckpt' = RaiseHW
                       /\ ev' = E(XRes("", "already", b + 1, last, 0))
                       /\ UNCHANGED <<rows, ret, idem, cli, snd, idIdx, mem, ident, prop>>
           ELSE IF b # leo THEN Refuse(0)
           ELSE IF v.err # ""
             THEN /\ ev' = E(XRes("rejected", "none", 0, 0, 0))
                  /\ mem' = [mem EXCEPT ![c].fl = v.fl, ![c].fk = v.fk]
                  /\ UNCHANGED <<durable, ident, prop>>
           ELSE /\ Stage(c, recs, b + 1)
                /\ ckpt'  = RaiseHW
                /\ ident' = [ident EXCEPT ![c] = [s \in DOMAIN @ \cup ((b + 1)..last) |-> IF s > b THEN pid ELSE @[s]]]
                /\ prop'  = [prop EXCEPT ![c] = Put(@, pid, [base |-> b, last |-> last, recs |-> recs])]
                /\ mem'   = [mem EXCEPT ![c].fl = v.fl, ![c].fk = v.fk, ![c].leo = last]
                /\ ev'    = E(XRes("", "durable", b + 1, last, 0))
                /\ UNCHANGED ret
  /\ UNCHANGED <<open, dbOpen, cfg>>

(* Replace(c, keep, ps, hw): ReplaceRecoverySuffix.  Everything above `keep` is deleted
   (rows, indexes, identities, proposals), the proposals ps = <<[pid, recs], ...>> are
   installed after it and the checkpoint is set to hw, in one commit.  The request carries
   the frontier the caller read just before; a channel whose frontier cannot be read (the
   watermark above the log end, or a tail without a proposal: plain appends, an adopted
   boundary above the last proposal) refuses. *)
RECURSIVE Flat(_, _)
Flat(ps, i) == IF i > Len(ps) THEN <<>> ELSE ps[i].recs \o Flat(ps, i + 1)
RECURSIVE PropsAfter(_, _, _, _)
PropsAfter(f, ps, base, i) ==
  IF i > Len(ps) THEN f
  ELSE PropsAfter(Put(f, ps[i].pid, [base |-> base, last |-> base + Len(ps[i].recs), recs |-> ps[i].recs]),
                  ps, base + Len(ps[i].recs), i + 1)
RECURSIVE IdentAfter(_, _, _, _)
IdentAfter(f, ps, base, i) ==
  IF i > Len(ps) THEN f
  ELSE LET n == Len(ps[i].recs) IN
       IdentAfter([s \in DOMAIN f \cup ((base + 1)..(base + n)) |-> IF s > base THEN ps[i].pid ELSE f[s]],
                  ps, base + n, i + 1)

Replace(c, keep, ps, hw) ==
  /\ Usable(c) /\ Compat
  /\ \A i \in 1..Len(ps) : ps[i].recs # <<>>
  /\ LET leo   == Leo(c)
         all   == Flat(ps, 1)
         final == keep + Len(all)
         S     == {s \in RowSeqs(c) : s > keep}
         pids  == {ps[i].pid : i \in 1..Len(ps)}
         dupPid  == Cardinality(pids) # Len(ps)
         reuse   == \E q \in pids : q \in DOMAIN prop[c] /\ prop[c][q].last <= keep
         dupId   == \E i, j \in 1..Len(all) : i < j /\ all[i].id = all[j].id
         dupKey  == \E i, j \in 1..Len(all) : i < j /\ HasKey(all[i]) /\ HasKey(all[j]) /\ KeyOf(all[i]) = KeyOf(all[j])
         idBusy  == \E i \in 1..Len(all) : all[i].id \in DOMAIN idIdx /\ (idIdx[all[i].id].c # c \/ idIdx[all[i].id].s <= keep)
         keyBusy == \E i \in 1..Len(all) : HasKey(all[i]) /\ KeyOf(all[i]) \in DOMAIN idem[c] /\ idem[c][KeyOf(all[i])].s <= keep
         refused == \/ ~FrontierOK(c)
                    \/ keep > leo \/ keep < CkHW(c) \/ hw < CkHW(c)
                    \/ (ret[c].has /\ keep < ret[c].local)
                    \/ (keep > 0 /\ ~\E q \in DOMAIN prop[c] : prop[c][q].last = keep)
                    \/ dupPid \/ reuse \/ dupId \/ dupKey \/ idBusy \/ keyBusy
         E(r)  == [a |-> "Replace", c |-> c, keep |-> keep, ps |-> ps, hw |-> hw, res |-> r]
     IN /\ final <= MaxSeq
        /\ hw <= final
        /\ IF refused
             THEN /\ ev' = E([err |-> "rejected", out |-> "none", last |-> 0])
                  /\ UNCHANGED <<durable, mem, ident, prop>>
             ELSE \* delete the suffix, then stage the replacement: two steps of one batch
                  /\ rows'  = [rows EXCEPT ![c] =
                                 [s \in (RowSeqs(c) \ S) \cup NewSeqs(all, keep + 1) |->
                                    IF s > keep THEN all[s - keep] ELSE rows[c][s]]]
                  /\ idIdx' = IdIdxAfter(Del(idIdx, {rows[c][s].id : s \in S}), c, all, keep + 1, 1)
                  /\ idem'  = [idem EXCEPT ![c] =
                                 IdemAfter(Del(idem[c], {KeyOf(rows[c][s]) : s \in {t \in S : HasKey(rows[c][t])}}), all, keep + 1, 1)]
                  /\ cli'   = [cli EXCEPT ![c] =
                                 (cli[c] \ {<<rows[c][s].no, s>> : s \in S})
                                 \cup {<<all[i].no, keep + i>> : i \in {j \in 1..Len(all) : all[j].no # "" /\ all[j].from = ""}}]
                  /\ snd'   = [snd EXCEPT ![c] =
                                 (snd[c] \ {<<rows[c][s].from, s>> : s \in S})
                                 \cup {<<all[i].from, keep + i>> : i \in {j \in 1..Len(all) : all[j].from # ""}}]
                  /\ ckpt'  = [ckpt EXCEPT ![c] = [has |-> TRUE, hw |-> hw]]
                  /\ ret'   = IF ret[c].has /\ ret[c].rmax > final THEN [ret EXCEPT ![c].rmax = final] ELSE ret
                  /\ ident' = [ident EXCEPT ![c] = IdentAfter(Del(@, {s \in DOMAIN @ : s > keep}), ps, keep, 1)]
                  /\ prop'  = [prop EXCEPT ![c] = PropsAfter(Del(@, {q \in DOMAIN @ : @[q].last > keep}), ps, keep, 1)]
                  /\ mem'   = [mem EXCEPT ![c].leo = final,
                                          ![c].fk = IF mem[c].fl
                                                      THEN @ \cup {KeyOf(all[i]) : i \in {j \in 1..Len(all) : HasKey(all[j])}}
                                                      ELSE @]
                  /\ ev'    = E([err |-> "", out |-> "durable", last |-> final])
  /\ UNCHANGED <<open, dbOpen, cfg>>

-------------------------------------------------------------------------------
\* small proposal lists for Replace in the exhaustive runs: at most n proposals of one record
PSets(n) == {<<>>}
              \cup (IF n >= 1 THEN {<< [pid |-> p, recs |-> << r >>] >> : p \in Pids, r \in Recs} ELSE {})
              \cup (IF n >= 2 THEN {<< [pid |-> p, recs |-> << r >>], [pid |-> q, recs |-> << r2 >>] >> : p \in Pids, q \in Pids, r \in Recs, r2 \in Recs} ELSE {})

NAppend   == \E c \in Chans, m \in Modes, recs \in Batches : XAppend(c, m, 0, recs)
NAppendAt == \E c \in Chans, b \in {0, 1}, recs \in Batches : Len(recs) <= 1 /\ XAppend(c, "strict", Leo(c) + b, recs)
NApply    == \E c \in Chans, m \in {"strict", "trusted"}, recs \in Batches, hw \in {0} \cup HWs : XApply(c, m, 0, recs, hw)
NApplyAt  == \E c \in Chans, b \in {0, 1}, recs \in Batches : Len(recs) <= 1 /\ XApply(c, "trusted", Leo(c) + b, recs, 0)
NTruncate == \E c \in Chans, to \in 0..MaxSeq : XTruncate(c, to)
NAdopt    == \E c \in Chans, t \in 0..MaxSeq : XAdopt(c, t)
NTrim     == \E c \in Chans, t \in 0..MaxSeq, lim \in {0, 1} : XTrim(c, t, lim)
NCkpt     == \E c \in Chans, hw \in HWs : XCkpt(c, hw)
NCkptMono == \E c \in Chans, hw \in HWs : XCkptMono(c, hw)
NOpenLease  == \E c \in Chans : XOpenLease(c)
NCloseLease == \E c \in Chans : XCloseLease(c)
NExAppend == \E c \in Chans, pid \in Pids, b \in 0..MaxSeq, recs \in Batches, mode \in {"strict", "alloc"}, hw \in {0} \cup HWs :
                ExAppend(c, pid, b, recs, mode, hw)
NReplace  == Pids # {} /\ \E c \in Chans, keep \in 0..MaxSeq, ps \in PSets(MaxRepl), hw \in {0} \cup HWs : Replace(c, keep, ps, hw)

NextX ==
  \/ NAppend \/ NAppendAt \/ NApply \/ NApplyAt \/ NTruncate \/ NAdopt \/ NTrim \/ NCkpt \/ NCkptMono
  \/ NOpenLease \/ NCloseLease \/ XCloseDB \/ XOpenDB
  \/ NExAppend \/ NReplace

SpecX == InitX /\ [][NextX]_xvars

-------------------------------------------------------------------------------
(* Projection: the MessageLog projection of a leased channel plus its exact view, read
   through the lease (cached log end):
     ok / leo / hw / tail   LoadDurableFrontier (fails closed on a watermark above the log
                            end or a tail without its proposal and identity)
     ents                   the command of the entry identity of each sequence in the window
                            of the last rows (LoadDurableRecovery); 0 = none / frontier unreadable
     cmds                   per probe command: p = 0 not stored, 1 stored and complete
                            (every row of its range stored under its identity) with its
                            range, -1 stored but rows or identities are missing (trimmed) *)
CurX == [rows |-> rows, ckpt |-> ckpt, idem |-> idem, cli |-> cli, snd |-> snd, idIdx |-> idIdx,
         mem |-> mem, open |-> open, dbOpen |-> dbOpen, cfg |-> cfg, ident |-> ident, prop |-> prop]

ExProj(S, c) ==
  LET leo  == S.mem[c].leo
      hw   == IF S.ckpt[c].has THEN S.ckpt[c].hw ELSE 0
      ID   == S.ident[c]
      PR   == S.prop[c]
      ok   == S.cfg.surface = "compat" /\ hw <= leo /\ TailOKOf(ID, PR, leo)
      W    == Asc(Window(S, c))
      Whole(q) == \A s \in (PR[q].base + 1)..PR[q].last :
                     s \in DOMAIN S.rows[c] /\ s \in DOMAIN ID /\ ID[s] = q
  IN [ok   |-> ok,
      leo  |-> IF ok THEN leo ELSE 0,
      hw   |-> IF ok THEN hw ELSE 0,
      tail |-> IF ok /\ leo > 0 THEN ID[leo] ELSE 0,
      ents |-> [i \in 1..Len(W) |-> IF ok /\ W[i] \in DOMAIN ID THEN ID[W[i]] ELSE 0],
      cmds |-> [i \in 1..Len(S.cfg.pids) |->
                  LET q == S.cfg.pids[i] IN
                  IF S.cfg.surface # "compat" \/ q \notin DOMAIN PR THEN [p |-> 0, base |-> 0, last |-> 0]
                  ELSE IF Whole(q) THEN [p |-> 1, base |-> PR[q].base, last |-> PR[q].last]
                  ELSE [p |-> -1, base |-> 0, last |-> 0]]]

ProjChanX(S, c) == ProjChan(S, c) @@ [ex |-> ExProj(S, c)]
ProjSX(S) == [c \in Chans |-> IF S.dbOpen /\ S.open[c] > 0 THEN ProjChanX(S, c) ELSE [isOpen |-> FALSE]]
ProjX == ProjSX(CurX)

-------------------------------------------------------------------------------
\* Properties of the exact path (C07).

TypeOKX ==
  \A c \in Chans :
    /\ \A s \in DOMAIN ident[c] : s \in 1..MaxSeq /\ ident[c][s] \in DOMAIN prop[c]
    /\ \A q \in DOMAIN prop[c] : prop[c][q].base < prop[c][q].last /\ Len(prop[c][q].recs) = prop[c][q].last - prop[c][q].base
    /\ (Typed => ident[c] = Empty /\ prop[c] = Empty)

\* C07: identities and proposals cover each other, no two proposals share a sequence, no
\* identity lies above the log end, and a stored row that carries an identity is the row
\* its proposal was sealed over (an overwritten row would break exactly this).
C07_ExactSound ==
  \A c \in Chans :
    /\ \A q \in DOMAIN prop[c] : \A s \in (prop[c][q].base + 1)..prop[c][q].last :
          /\ s \in DOMAIN ident[c] /\ ident[c][s] = q
          /\ (s \in RowSeqs(c) => rows[c][s] = prop[c][q].recs[s - prop[c][q].base])
    /\ \A s \in DOMAIN ident[c] :
          /\ prop[c][ident[c][s]].base < s /\ s <= prop[c][ident[c][s]].last
          /\ s <= LogEnd(c)
    \* proposals chain: each starts at 0 or where another one ends
    /\ \A q \in DOMAIN prop[c] : prop[c][q].base = 0 \/ \E p \in DOMAIN prop[c] : prop[c][p].last = prop[c][q].base

\* C07: an exact append that is reported durable landed exactly on log end + 1 = b + 1 and
\* left every other row as it was; a retry that is reported already durable changes no row,
\* no index, no identity and no log end (cached or durable), whichever proposal is retried
\* and whatever watermark it carries; a refused one changes nothing durable.
C07_ExactAtEnd ==
  [][ev'.a = "ExAppend" =>
       LET c == ev'.c IN
       /\ (ev'.res.out = "durable" =>
             /\ ev'.b = LogEnd(c) /\ ev'.res.base = LogEnd(c) + 1 /\ ev'.res.last = LogEndP(c)
             /\ \A s \in RowSeqs(c) : s \in DOMAIN rows'[c] /\ rows'[c][s] = rows[c][s]
             /\ \A i \in 1..Len(ev'.recs) : rows'[c][ev'.b + i] = ev'.recs[i]
             /\ mem'[c].leo = ev'.res.last)
       /\ (ev'.res.out = "already" =>
             /\ <<rows, ret, idem, cli, snd, idIdx, ident, prop>>' = <<rows, ret, idem, cli, snd, idIdx, ident, prop>>
             /\ mem' = mem
             /\ CkHWP(c) >= CkHW(c)
             /\ ev'.res.last <= LogEnd(c))
       /\ (ev'.res.out = "none" => durableX' = durableX /\ mem'[c].leo = mem[c].leo)
       /\ \A d \in Chans \ {c} : rows'[d] = rows[d] /\ ident'[d] = ident[d] /\ prop'[d] = prop[d]]_xvars

\* C07: a suffix replacement keeps everything at or below `keep` and ends the log at the
\* end of the installed proposals.
C07_ReplaceKeeps ==
  [][ev'.a = "Replace" =>
       LET c == ev'.c IN
       IF ev'.res.err = ""
         THEN /\ \A s \in RowSeqs(c) : s <= ev'.keep => s \in DOMAIN rows'[c] /\ rows'[c][s] = rows[c][s]
              /\ \A s \in DOMAIN rows'[c] : s <= ev'.keep => s \in RowSeqs(c)
              /\ mem'[c].leo = ev'.res.last /\ LogEndP(c) = ev'.res.last
         ELSE durableX' = durableX /\ mem' = mem]_xvars

\* C07 (reopen neutrality) and C08 (duplicates) extended to the added state and action.
C07_ReopenNeutralX ==
  [][ev'.a \in {"OpenLease", "CloseLease", "CloseDB", "OpenDB"} => durableX' = durableX]_xvars
C08_DuplicateRejectedX ==
  [][ev'.a = "ExAppend" /\ ev'.res.out # "already"
       /\ (\/ DupInBatch(ev'.recs)
           \/ \E i \in 1..Len(ev'.recs) :
                 \/ HasKey(ev'.recs[i]) /\ KeyOf(ev'.recs[i]) \in DOMAIN idem[ev'.c]
                 \/ ev'.mode = "strict" /\ ev'.recs[i].id \in DOMAIN idIdx)
     => ev'.res.err = "rejected" /\ durableX' = durableX]_xvars

ViewX == <<rows, ret, ckpt, idem, cli, snd, idIdx, mem, open, dbOpen, cfg, ident, prop>>
===============================================================================

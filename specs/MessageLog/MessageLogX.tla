----------------------------- MODULE MessageLogX -----------------------------
(* The exact-proposal path of the compatibility surface, added to MessageLog
   (pkg/db/message compat.go StoreAppendBatch with ExactBaseOffset, proposal_manifest.go,
   recovery_replace.go; the path pkg/channel/store/channel_adapter.go drives for a channel
   leader: AppendLeader with a sealed proposal manifest, AlreadyDurable retries after a
   lost reply, ReplaceRecoverySuffix, LoadExactProposal).

   Added durable state, per channel c
     ident[c] : seq -> pid                      the entry identity stored with every exactly
                                                appended row (which command wrote it)
     prop[c]  : pid -> [base, last, recs]       the proposal record of a command (stored under
                                                its command id and under its last offset);
                                                recs is the content the manifest digest binds
   Neither is touched by a retention trim (the rows go, the identities stay); a truncation
   removes the complete proposals above its target and refuses a target inside one.

   Actions added (compat surface only)
     ExAppend(c, pid, b, recs, mode, hw)  one exact item: rows at b+1.., identities, proposal
         record and the raised checkpoint in one commit ("durable"); a stored command
         offered again is "already" durable and writes at most the checkpoint (a retry of
         the tail proposal or of an OLDER one: the log end, cached or durable, must not
         move); everything else is a conflict, a gap tells the caller where to resume
         (need = log end + 1).
     Replace(c, keep, ps, hw)  ReplaceRecoverySuffix, fenced on the frontier
         (LoadDurableFrontier) the caller read just before.
   and the exact view of a channel is part of the projection (ExProj): the frontier, the
   entry identities of the last rows, the proposal stored under every probe command
   (LoadDurableProposal, the read below LoadExactProposal).

   Environment contract of the exact path (obeyed by the behaviour generator and the
   drivers): a committed value never exceeds the proposal's own last offset; the
   server-allocated-id mode at the current frontier is only used with a command that is
   not stored (allocator-issued ids make the content-derived command id fresh), and, as
   for plain appends, with ids that are not stored. *)
EXTENDS MessageLog

CONSTANTS
  Pids,       \* command identities offered for exact appends (positive integers)
  ProbePids,  \* sequence: the commands every projection looks up
  MaxRepl     \* exhaustive runs: proposals per suffix replacement (0..2)

VARIABLES ident, prop

xvars    == <<rows, ret, ckpt, idem, cli, snd, idIdx, mem, open, dbOpen, cfg, ev, ident, prop>>
durableX == <<rows, ret, ckpt, idem, cli, snd, idIdx, ident, prop>>

KeepX == UNCHANGED <<ident, prop>>

InitX ==
  /\ rows  = [c \in Chans |-> Empty]
  /\ ret   = [c \in Chans |-> NoRet]
  /\ ckpt  = [c \in Chans |-> NoCkpt]
  /\ idem  = [c \in Chans |-> Empty]
  /\ cli   = [c \in Chans |-> {}]
  /\ snd   = [c \in Chans |-> {}]
  /\ idIdx = Empty
  /\ mem   = [c \in Chans |-> NoMem]
  /\ open  = [c \in Chans |-> 0]
  /\ dbOpen = TRUE
  /\ ident = [c \in Chans |-> Empty]
  /\ prop  = [c \in Chans |-> Empty]
  /\ cfg \in [surface : Surfaces, ids : {ProbeIds}, froms : {ProbeFroms}, nos : {ProbeNos}, pids : {ProbePids}]
  /\ ev = [a |-> "Init", cfg |-> cfg]

CkHW(c)  == IF ckpt[c].has THEN ckpt[c].hw ELSE 0
CkHWP(c) == IF ckpt'[c].has THEN ckpt'[c].hw ELSE 0

\* the tail of the log carries the proof LoadDurableFrontier needs: the proposal that ends
\* at the log end and the identity of its last entry
TailOKOf(ID, PR, leo) ==
  leo = 0 \/ (leo \in DOMAIN ID /\ ID[leo] \in DOMAIN PR /\ PR[ID[leo]].last = leo)
FrontierOK(c) == CkHW(c) <= Leo(c) /\ TailOKOf(ident[c], prop[c], Leo(c))

-------------------------------------------------------------------------------
\* The MessageLog actions leave identities and proposals alone, except truncation.

XAppend(c, mode, base, recs)    == DoAppend(c, mode, base, recs) /\ KeepX
XApply(c, mode, base, recs, hw) == DoApply(c, mode, base, recs, hw) /\ KeepX
XAdopt(c, t)                    == Adopt(c, t) /\ KeepX
XTrim(c, t, lim)                == Trim(c, t, lim) /\ KeepX
XCkpt(c, hw)                    == Ckpt(c, hw) /\ KeepX
XCkptMono(c, hw)                == CkptMono(c, hw) /\ KeepX
XOpenLease(c)                   == OpenLease(c) /\ KeepX
XCloseLease(c)                  == CloseLease(c) /\ KeepX
XCloseDB                        == CloseDB /\ KeepX
XOpenDB                         == OpenDB /\ KeepX

(* Truncation also removes the complete proposals above the target with their entry
   identities (stageTruncateDurableProposals, same batch); a target inside a proposal is
   refused. *)
XTruncate(c, to) ==
  LET leo      == Leo(c)
      refused  == Compat /\ (to > leo \/ (to < leo /\ ret[c].has /\ to < ret[c].local))
      cuts     == ~refused /\ to < leo
      straddle == \E q \in DOMAIN prop[c] : prop[c][q].base < to /\ to < prop[c][q].last
  IN IF cuts /\ straddle
       THEN /\ Usable(c)
            /\ (Typed /\ ret[c].has => to >= ret[c].local)
            /\ ev' = [a |-> "Truncate", c |-> c, to |-> to, res |-> [err |-> "rejected"]]
            /\ UNCHANGED <<durable, mem, open, dbOpen, cfg, ident, prop>>
       ELSE /\ Truncate(c, to)
            /\ ident' = IF cuts THEN [ident EXCEPT ![c] = Del(@, {s \in DOMAIN @ : s > to})] ELSE ident
            /\ prop'  = IF cuts THEN [prop EXCEPT ![c] = Del(@, {q \in DOMAIN @ : @[q].last > to})] ELSE prop

-------------------------------------------------------------------------------
(* ExAppend(c, pid, b, recs, mode, hw): StoreAppendBatch with one exact item
   (ExactBaseOffset, ExpectedBaseOffset = b, Proposal = the manifest of command pid sealed
   over recs and chained to the entry at b, Committed = hw).  The checks, in the order of
   prepareExactAppendRecordsLocked:
     gap (b above the log end)                          -> conflict, need = log end + 1
     predecessor: a proposal must end at b              -> conflict
     unless server-allocated ids at the frontier: the command / the last offset / the
       entry slots are either all stored with this very manifest (a replay) or all free
                                                         -> conflict
     committed: stored watermark above what will be visible -> conflict; else raised
     replay of a stored command                         -> already (log end untouched)
     a new command must sit exactly at the log end      -> conflict
     row validation as for a plain append               -> rejected, filter adds stay *)
XRes(err, out, b, l, need) == [err |-> err, out |-> out, base |-> b, last |-> l, need |-> need]

ExAppend(c, pid, b, recs, mode, hw) ==
  /\ Usable(c) /\ Compat
  /\ mode \in {"strict", "alloc"}
  /\ recs # <<>>
  /\ b + Len(recs) <= MaxSeq
  /\ hw <= b + Len(recs)
  /\ LET leo     == Leo(c)
         last    == b + Len(recs)
         present == pid \in DOMAIN prop[c]
         same    == present /\ prop[c][pid] = [base |-> b, last |-> last, recs |-> recs]
         predOK  == b = 0 \/ \E q \in DOMAIN prop[c] : prop[c][q].last = b
         lastTaken == \E q \in DOMAIN prop[c] \ {pid} : prop[c][q].last = last
         entTaken  == \E s \in (b + 1)..last : s \in DOMAIN ident[c]
         fresh   == mode = "alloc" /\ b = leo
         v       == Validate(c, mode, recs, b + 1)
         E(r)    == [a |-> "ExAppend", c |-> c, pid |-> pid, b |-> b, recs |-> recs, mode |-> mode, hw |-> hw, res |-> r]
         Refuse(need) == /\ ev' = E(XRes("rejected", "none", 0, 0, need))
                         /\ UNCHANGED <<durable, mem, ident, prop>>
         RaiseHW == IF hw > CkHW(c) THEN [ckpt EXCEPT ![c] = [has |-> TRUE, hw |-> hw]] ELSE ckpt
     IN /\ (fresh => ~present)
        /\ (~same => EnvOK(c, mode, recs))
        /\ IF b > leo THEN Refuse(leo + 1)
           ELSE IF ~predOK THEN Refuse(0)
           ELSE IF ~fresh /\ ((present /\ ~same) \/ (~present /\ (lastTaken \/ entTaken))) THEN Refuse(0)
           ELSE IF hw > 0 /\ CkHW(c) > MaxOf(leo, last) THEN Refuse(0)
           ELSE IF same
             THEN IF leo < last THEN Refuse(0)
                  ELSE /\ ckpt' = RaiseHW
                       /\ ev' = E(XRes("", "already", b + 1, last, 0))
                       /\ UNCHANGED <<rows, ret, idem, cli, snd, idIdx, mem, ident, prop>>
           ELSE IF b # leo THEN Refuse(0)
           ELSE IF v.err # ""
             THEN /\ ev' = E(XRes("rejected", "none", 0, 0, 0))
                  /\ mem' = [mem EXCEPT ![c].fl = v.fl, ![c].fk = v.fk]
                  /\ UNCHANGED <<durable, ident, prop>>
           ELSE /\ Stage(c, recs, b + 1)
                /\ ckpt'  = RaiseHW
                /\ ident' = [ident EXCEPT ![c] = [s \in DOMAIN @ \cup ((b + 1)..last) |-> IF s > b THEN pid ELSE @[s]]]
                /\ prop'  = [prop EXCEPT ![c] = Put(@, pid, [base |-> b, last |-> last, recs |-> recs])]
                /\ mem'   = [mem EXCEPT ![c].fl = v.fl, ![c].fk = v.fk, ![c].leo = last]
                /\ ev'    = E(XRes("", "durable", b + 1, last, 0))
                /\ UNCHANGED ret
  /\ UNCHANGED <<open, dbOpen, cfg>>

(* Replace(c, keep, ps, hw): ReplaceRecoverySuffix.  Everything above `keep` is deleted
   (rows, indexes, identities, proposals), the proposals ps = <<[pid, recs], ...>> are
   installed after it and the checkpoint is set to hw, in one commit.  The request carries
   the frontier the caller read just before; a channel whose frontier cannot be read (the
   watermark above the log end, or a tail without a proposal: plain appends, an adopted
   boundary above the last proposal) refuses. *)
RECURSIVE Flat(_, _)
Flat(ps, i) == IF i > Len(ps) THEN <<>> ELSE ps[i].recs \o Flat(ps, i + 1)
RECURSIVE PropsAfter(_, _, _, _)
PropsAfter(f, ps, base, i) ==
  IF i > Len(ps) THEN f
  ELSE PropsAfter(Put(f, ps[i].pid, [base |-> base, last |-> base + Len(ps[i].recs), recs |-> ps[i].recs]),
                  ps, base + Len(ps[i].recs), i + 1)
RECURSIVE IdentAfter(_, _, _, _)
IdentAfter(f, ps, base, i) ==
  IF i > Len(ps) THEN f
  ELSE LET n == Len(ps[i].recs) IN
       IdentAfter([s \in DOMAIN f \cup ((base + 1)..(base + n)) |-> IF s > base THEN ps[i].pid ELSE f[s]],
                  ps, base + n, i + 1)

Replace(c, keep, ps, hw) ==
  /\ Usable(c) /\ Compat
  /\ \A i \in 1..Len(ps) : ps[i].recs # <<>>
  /\ LET leo   == Leo(c)
         all   == Flat(ps, 1)
         final == keep + Len(all)
         S     == {s \in RowSeqs(c) : s > keep}
         pids  == {ps[i].pid : i \in 1..Len(ps)}
         dupPid  == Cardinality(pids) # Len(ps)
         reuse   == \E q \in pids : q \in DOMAIN prop[c] /\ prop[c][q].last <= keep
         dupId   == \E i, j \in 1..Len(all) : i < j /\ all[i].id = all[j].id
         dupKey  == \E i, j \in 1..Len(all) : i < j /\ HasKey(all[i]) /\ HasKey(all[j]) /\ KeyOf(all[i]) = KeyOf(all[j])
         idBusy  == \E i \in 1..Len(all) : all[i].id \in DOMAIN idIdx /\ (idIdx[all[i].id].c # c \/ idIdx[all[i].id].s <= keep)
         keyBusy == \E i \in 1..Len(all) : HasKey(all[i]) /\ KeyOf(all[i]) \in DOMAIN idem[c] /\ idem[c][KeyOf(all[i])].s <= keep
         refused == \/ ~FrontierOK(c)
                    \/ keep > leo \/ keep < CkHW(c) \/ hw < CkHW(c)
                    \/ (ret[c].has /\ keep < ret[c].local)
                    \/ (keep > 0 /\ ~\E q \in DOMAIN prop[c] : prop[c][q].last = keep)
                    \/ dupPid \/ reuse \/ dupId \/ dupKey \/ idBusy \/ keyBusy
         E(r)  == [a |-> "Replace", c |-> c, keep |-> keep, ps |-> ps, hw |-> hw, res |-> r]
     IN /\ final <= MaxSeq
        /\ hw <= final
        /\ IF refused
             THEN /\ ev' = E([err |-> "rejected", out |-> "none", last |-> 0])
                  /\ UNCHANGED <<durable, mem, ident, prop>>
             ELSE \* delete the suffix, then stage the replacement: two steps of one batch
                  /\ rows'  = [rows EXCEPT ![c] =
                                 [s \in (RowSeqs(c) \ S) \cup NewSeqs(all, keep + 1) |->
                                    IF s > keep THEN all[s - keep] ELSE rows[c][s]]]
                  /\ idIdx' = IdIdxAfter(Del(idIdx, {rows[c][s].id : s \in S}), c, all, keep + 1, 1)
                  /\ idem'  = [idem EXCEPT ![c] =
                                 IdemAfter(Del(idem[c], {KeyOf(rows[c][s]) : s \in {t \in S : HasKey(rows[c][t])}}), all, keep + 1, 1)]
                  /\ cli'   = [cli EXCEPT ![c] =
                                 (cli[c] \ {<<rows[c][s].no, s>> : s \in S})
                                 \cup {<<all[i].no, keep + i>> : i \in {j \in 1..Len(all) : all[j].no # "" /\ all[j].from = ""}}]
                  /\ snd'   = [snd EXCEPT ![c] =
                                 (snd[c] \ {<<rows[c][s].from, s>> : s \in S})
                                 \cup {<<all[i].from, keep + i>> : i \in {j \in 1..Len(all) : all[j].from # ""}}]
                  /\ ckpt'  = [ckpt EXCEPT ![c] = [has |-> TRUE, hw |-> hw]]
                  /\ ret'   = IF ret[c].has /\ ret[c].rmax > final THEN [ret EXCEPT ![c].rmax = final] ELSE ret
                  /\ ident' = [ident EXCEPT ![c] = IdentAfter(Del(@, {s \in DOMAIN @ : s > keep}), ps, keep, 1)]
                  /\ prop'  = [prop EXCEPT ![c] = PropsAfter(Del(@, {q \in DOMAIN @ : @[q].last > keep}), ps, keep, 1)]
                  /\ mem'   = [mem EXCEPT ![c].leo = final,
                                          ![c].fk = IF mem[c].fl
                                                      THEN @ \cup {KeyOf(all[i]) : i \in {j \in 1..Len(all) : HasKey(all[j])}}
                                                      ELSE @]
                  /\ ev'    = E([err |-> "", out |-> "durable", last |-> final])
  /\ UNCHANGED <<open, dbOpen, cfg>>

-------------------------------------------------------------------------------
(* ExBatch(items): ONE message.StoreAppendBatch call carrying several exact items
   items[i] = [c, pid, b, recs, mode, hw] (storeAppendBatchOwner).  The items of a channel are
   prepared in the order of the call, under the channel's append lock, against the state
   INCLUDING the earlier items of the same call:
     P = the (cached) log end before the call, V = the virtual log end, raised by every item
     that stages rows.  For an item with base b
       b > V                  a gap: conflict, resume at V + 1
       P <= b < V  (V > P)    it can only be the replay of a proposal staged by this very
                              call (same command, range and content): "already" durable, but
                              only together with the group's commit; anything else conflicts
       b = V > P              pipelined behind a staged item (prepareAdjacentExactAppendLocked):
                              the command, its last offset and its entry slots must be free,
                              staged and stored; rows validated; then the committed value
       b <= P                 the single-item path of ExAppend against the stored state
                              (prepareExactAppendRecordsLocked): a new proposal at b = P = V,
                              replays of stored proposals, conflicts
   Row validation shares ONE in-call duplicate tracker per channel (appendValidationSeen):
   an id or a (sender, client number) key of an earlier item of the call is a duplicate
   exactly like a stored one (C08), although the earlier item is not committed yet (the
   membership filter already holds its key, the durable point read cannot find it).
   Everything the items stage (rows, indexes, identities, proposals, the highest raised
   watermark), for every channel of the call, goes into one commit request = one physical
   batch; the replies are aligned with the items.

   Environment contract in addition to ExAppend's: items of different channels carry
   different message ids (an id is allocated once per node; the in-call tracker is per
   channel); an item that was validated but not staged (rejected rows) leaves its ids and
   keys in the tracker, which the property does not speak about: later items of that
   channel in the same call do not reuse them; a pipelined item (base above the log end) is
   chained on one predecessor: the earlier items of the call that end at its base are one and
   the same proposal. *)
BItem(c, pid, b, recs, mode, hw) == [c |-> c, pid |-> pid, b |-> b, recs |-> recs, mode |-> mode, hw |-> hw]
IdsOf(recs)  == {recs[i].id : i \in 1..Len(recs)}
KeysOf(recs) == {KeyOf(recs[i]) : i \in {j \in 1..Len(recs) : HasKey(recs[j])}}

\* per channel: what the call has staged so far; r / w = reply of the item just prepared and
\* whether its rows were validated without being staged; dep = the reply waits for the commit
BAcc0(c) == [V |-> Leo(c), sp |-> Empty, sid |-> << >>, recs |-> << >>, ck |-> 0,
             sI |-> {}, sK |-> {}, fl |-> mem[c].fl, fk |-> mem[c].fk,
             r |-> XRes("", "none", 0, 0, 0), w |-> FALSE, dep |-> FALSE]

BStep(c, a0, it) ==
  LET a     == [a0 EXCEPT !.w = FALSE, !.dep = FALSE]
      P     == Leo(c)
      b     == it.b
      recs  == it.recs
      last  == b + Len(recs)
      me    == [base |-> b, last |-> last, recs |-> recs]
      raise == IF it.hw > CkHW(c) THEN it.hw ELSE 0
      v     == Walk(c, it.mode, recs, 1, b + 1, a.sI, a.sK, a.fl, a.fk)
      Ref(need) == [a EXCEPT !.r = XRes("rejected", "none", 0, 0, need)]
      RefW      == [a EXCEPT !.r = XRes("rejected", "none", 0, 0, 0), !.fl = v.fl, !.fk = v.fk, !.w = TRUE]
      Already(dep) == [a EXCEPT !.r = XRes("", "already", b + 1, last, 0), !.ck = MaxOf(@, raise),
                                !.dep = dep \/ raise > 0]
      Staged == [a EXCEPT !.r = XRes("", "durable", b + 1, last, 0), !.ck = MaxOf(@, raise), !.V = last,
                          !.sp = Put(@, it.pid, me), !.sid = @ \o [i \in 1..Len(recs) |-> it.pid],
                          !.recs = @ \o recs, !.sI = @ \cup IdsOf(recs), !.sK = @ \cup KeysOf(recs),
                          !.fl = v.fl, !.fk = v.fk, !.dep = TRUE]
      present   == it.pid \in DOMAIN prop[c]
      same      == present /\ prop[c][it.pid] = me
      predOK    == b = 0 \/ \E q \in DOMAIN prop[c] : prop[c][q].last = b
      lastTaken == \E q \in DOMAIN prop[c] \ {it.pid} : prop[c][q].last = last
      entTaken  == \E s \in (b + 1)..last : s \in DOMAIN ident[c]
      fresh     == it.mode = "alloc" /\ b = P
  IN IF b > a.V THEN Ref(a.V + 1)
     ELSE IF a.V > P /\ b >= P /\ b < a.V
       THEN IF it.pid \in DOMAIN a.sp /\ a.sp[it.pid] = me /\ ~(it.hw > 0 /\ CkHW(c) > a.V)
              THEN Already(TRUE) ELSE Ref(0)
     ELSE IF b > P
       THEN IF it.pid \in DOMAIN a.sp \/ present \/ lastTaken \/ entTaken THEN Ref(0)
            ELSE IF v.err # "" THEN RefW
            ELSE IF it.hw > 0 /\ CkHW(c) > last THEN RefW
            ELSE Staged
     ELSE IF ~predOK THEN Ref(0)
     ELSE IF ~fresh /\ ((present /\ ~same) \/ (~present /\ (lastTaken \/ entTaken))) THEN Ref(0)
     ELSE IF it.hw > 0 /\ CkHW(c) > MaxOf(P, last) THEN Ref(0)
     ELSE IF same THEN (IF P < last THEN Ref(0) ELSE Already(FALSE))
     ELSE IF b # P THEN Ref(0)
     ELSE IF v.err # "" THEN RefW
     ELSE Staged

RECURSIVE BFold(_, _, _)
BFold(items, i, st) ==
  IF i > Len(items) THEN st
  ELSE LET c == items[i].c
           a == BStep(c, st.A[c], items[i])
       IN BFold(items, i + 1, [A |-> [st.A EXCEPT ![c] = a], res |-> Append(st.res, a.r),
                               wk |-> Append(st.wk, a.w), dep |-> Append(st.dep, a.dep)])
BRun(items) == BFold(items, 1, [A |-> [c \in Chans |-> BAcc0(c)], res |-> << >>, wk |-> << >>, dep |-> << >>])

RECURSIVE IdIdxAll(_, _, _)
IdIdxAll(f, S, F) ==
  IF S = {} THEN f
  ELSE LET c == CHOOSE x \in S : TRUE
       IN IdIdxAll(IdIdxAfter(f, c, F[c].recs, Leo(c) + 1, 1), S \ {c}, F)

\* the environment contract of one call (see above)
BatchEnv(items, run) ==
  /\ Compat /\ Len(items) >= 1
  /\ \A i \in 1..Len(items) :
       LET it == items[i] IN
       /\ Usable(it.c)
       /\ it.mode \in {"strict", "alloc"}
       /\ it.recs # << >>
       /\ it.b + Len(it.recs) <= MaxSeq
       /\ it.hw <= it.b + Len(it.recs)
       /\ (it.mode = "alloc" /\ it.b = Leo(it.c) => it.pid \notin DOMAIN prop[it.c])
       /\ (~(it.pid \in DOMAIN prop[it.c]
             /\ prop[it.c][it.pid] = [base |-> it.b, last |-> it.b + Len(it.recs), recs |-> it.recs])
             => EnvOK(it.c, it.mode, it.recs))
  /\ \A i, j \in 1..Len(items) : i < j =>
       /\ (items[i].c # items[j].c => IdsOf(items[i].recs) \cap IdsOf(items[j].recs) = {})
       \* the caller pipelines an item on ONE predecessor: the items of the call that end at its base are one proposal
       /\ \A k \in 1..Len(items) : k < j /\ items[i].c = items[j].c /\ items[k].c = items[j].c /\ items[j].b > Leo(items[j].c)
                                     /\ items[i].b + Len(items[i].recs) = items[j].b /\ items[k].b + Len(items[k].recs) = items[j].b
                                     => items[i].pid = items[k].pid /\ items[i].b = items[k].b /\ items[i].recs = items[k].recs
       /\ (items[i].c = items[j].c /\ run.wk[i] =>
             /\ IdsOf(items[i].recs) \cap IdsOf(items[j].recs) = {}
             /\ KeysOf(items[i].recs) \cap KeysOf(items[j].recs) = {})

\* the state after the group's commit, from the accumulators F of the channels T of the call
BatchCommit(F, T) ==
  /\ rows'  = [c \in Chans |-> IF c \in T THEN RowsAfter(c, F[c].recs, Leo(c) + 1) ELSE rows[c]]
  /\ idIdx' = IdIdxAll(idIdx, T, F)
  /\ idem'  = [c \in Chans |-> IF c \in T THEN IdemAfter(idem[c], F[c].recs, Leo(c) + 1, 1) ELSE idem[c]]
  /\ cli'   = [c \in Chans |-> IF c \in T THEN CliAfter(c, F[c].recs, Leo(c) + 1) ELSE cli[c]]
  /\ snd'   = [c \in Chans |-> IF c \in T THEN SndAfter(c, F[c].recs, Leo(c) + 1) ELSE snd[c]]
  /\ ckpt'  = [c \in Chans |-> IF c \in T /\ F[c].ck > CkHW(c) THEN [has |-> TRUE, hw |-> F[c].ck] ELSE ckpt[c]]
  /\ ident' = [c \in Chans |->
                 IF c \notin T THEN ident[c]
                 ELSE [s \in DOMAIN ident[c] \cup ((Leo(c) + 1)..(Leo(c) + Len(F[c].recs))) |->
                         IF s > Leo(c) THEN F[c].sid[s - Leo(c)] ELSE ident[c][s]]]
  /\ prop'  = [c \in Chans |->
                 IF c \notin T THEN prop[c]
                 ELSE [q \in DOMAIN prop[c] \cup DOMAIN F[c].sp |->
                         IF q \in DOMAIN F[c].sp THEN F[c].sp[q] ELSE prop[c][q]]]
  /\ mem'   = [c \in Chans |-> IF c \in T THEN [mem[c] EXCEPT !.fl = F[c].fl, !.fk = F[c].fk, !.leo = F[c].V] ELSE mem[c]]

ChansOf(items) == {items[i].c : i \in 1..Len(items)}

ExBatch(items) ==
  LET run == BRun(items) IN
  /\ BatchEnv(items, run)
  /\ BatchCommit(run.A, ChansOf(items))
  /\ ev' = [a |-> "ExBatch", items |-> items, res |-> [err |-> "", items |-> run.res]]
  /\ UNCHANGED <<ret, open, dbOpen, cfg>>

-------------------------------------------------------------------------------
\* small proposal lists for Replace in the exhaustive runs: at most n proposals of one record
PSets(n) == {<<>>}
              \cup (IF n >= 1 THEN {<< [pid |-> p, recs |-> << r >>] >> : p \in Pids, r \in Recs} ELSE {})
              \cup (IF n >= 2 THEN {<< [pid |-> p, recs |-> << r >>], [pid |-> q, recs |-> << r2 >>] >> : p \in Pids, q \in Pids, r \in Recs, r2 \in Recs} ELSE {})

NAppend   == \E c \in Chans, m \in Modes, recs \in Batches : XAppend(c, m, 0, recs)
NAppendAt == \E c \in Chans, b \in {0, 1}, recs \in Batches : Len(recs) <= 1 /\ XAppend(c, "strict", Leo(c) + b, recs)
NApply    == \E c \in Chans, m \in {"strict", "trusted"}, recs \in Batches, hw \in {0} \cup HWs : XApply(c, m, 0, recs, hw)
NApplyAt  == \E c \in Chans, b \in {0, 1}, recs \in Batches : Len(recs) <= 1 /\ XApply(c, "trusted", Leo(c) + b, recs, 0)
NTruncate == \E c \in Chans, to \in 0..MaxSeq : XTruncate(c, to)
NAdopt    == \E c \in Chans, t \in 0..MaxSeq : XAdopt(c, t)
NTrim     == \E c \in Chans, t \in 0..MaxSeq, lim \in {0, 1} : XTrim(c, t, lim)
NCkpt     == \E c \in Chans, hw \in HWs : XCkpt(c, hw)
NCkptMono == \E c \in Chans, hw \in HWs : XCkptMono(c, hw)
NOpenLease  == \E c \in Chans : XOpenLease(c)
NCloseLease == \E c \in Chans : XCloseLease(c)
NExAppend == \E c \in Chans, pid \in Pids, b \in 0..MaxSeq, recs \in Batches, mode \in {"strict", "alloc"}, hw \in {0} \cup HWs :
                ExAppend(c, pid, b, recs, mode, hw)
NReplace  == Pids # {} /\ \E c \in Chans, keep \in 0..MaxSeq, ps \in PSets(MaxRepl), hw \in {0} \cup HWs : Replace(c, keep, ps, hw)

NextX ==
  \/ NAppend \/ NAppendAt \/ NApply \/ NApplyAt \/ NTruncate \/ NAdopt \/ NTrim \/ NCkpt \/ NCkptMono
  \/ NOpenLease \/ NCloseLease \/ XCloseDB \/ XOpenDB
  \/ NExAppend \/ NReplace

SpecX == InitX /\ [][NextX]_xvars

-------------------------------------------------------------------------------
(* Projection: the MessageLog projection of a leased channel plus its exact view, read
   through the lease (cached log end):
     ok / leo / hw / tail   LoadDurableFrontier (fails closed on a watermark above the log
                            end or a tail without its proposal and identity)
     ents                   the command of the entry identity of each sequence in the window
                            of the last rows (LoadDurableRecovery); 0 = none / frontier unreadable
     cmds                   per probe command: p = 0 not stored, 1 stored and complete
                            (every row of its range stored under its identity) with its
                            range, -1 stored but rows or identities are missing (trimmed) *)
CurX == [rows |-> rows, ckpt |-> ckpt, idem |-> idem, cli |-> cli, snd |-> snd, idIdx |-> idIdx,
         mem |-> mem, open |-> open, dbOpen |-> dbOpen, cfg |-> cfg, ident |-> ident, prop |-> prop]

ExProj(S, c) ==
  LET leo  == S.mem[c].leo
      hw   == IF S.ckpt[c].has THEN S.ckpt[c].hw ELSE 0
      ID   == S.ident[c]
      PR   == S.prop[c]
      ok   == S.cfg.surface = "compat" /\ hw <= leo /\ TailOKOf(ID, PR, leo)
      W    == Asc(Window(S, c))
      Whole(q) == \A s \in (PR[q].base + 1)..PR[q].last :
                     s \in DOMAIN S.rows[c] /\ s \in DOMAIN ID /\ ID[s] = q
  IN [ok   |-> ok,
      leo  |-> IF ok THEN leo ELSE 0,
      hw   |-> IF ok THEN hw ELSE 0,
      tail |-> IF ok /\ leo > 0 THEN ID[leo] ELSE 0,
      ents |-> [i \in 1..Len(W) |-> IF ok /\ W[i] \in DOMAIN ID THEN ID[W[i]] ELSE 0],
      cmds |-> [i \in 1..Len(S.cfg.pids) |->
                  LET q == S.cfg.pids[i] IN
                  IF S.cfg.surface # "compat" \/ q \notin DOMAIN PR THEN [p |-> 0, base |-> 0, last |-> 0]
                  ELSE IF Whole(q) THEN [p |-> 1, base |-> PR[q].base, last |-> PR[q].last]
                  ELSE [p |-> -1, base |-> 0, last |-> 0]]]

ProjChanX(S, c) == ProjChan(S, c) @@ [ex |-> ExProj(S, c)]
ProjSX(S) == [c \in Chans |-> IF S.dbOpen /\ S.open[c] > 0 THEN ProjChanX(S, c) ELSE [isOpen |-> FALSE]]
ProjX == ProjSX(CurX)

-------------------------------------------------------------------------------
\* Properties of the exact path (C07).

TypeOKX ==
  \A c \in Chans :
    /\ \A s \in DOMAIN ident[c] : s \in 1..MaxSeq /\ ident[c][s] \in DOMAIN prop[c]
    /\ \A q \in DOMAIN prop[c] : prop[c][q].base < prop[c][q].last /\ Len(prop[c][q].recs) = prop[c][q].last - prop[c][q].base
    /\ (Typed => ident[c] = Empty /\ prop[c] = Empty)

\* C07: identities and proposals cover each other, no two proposals share a sequence, no
\* identity lies above the log end, and a stored row that carries an identity is the row
\* its proposal was sealed over (an overwritten row would break exactly this).
C07_ExactSound ==
  \A c \in Chans :
    /\ \A q \in DOMAIN prop[c] : \A s \in (prop[c][q].base + 1)..prop[c][q].last :
          /\ s \in DOMAIN ident[c] /\ ident[c][s] = q
          /\ (s \in RowSeqs(c) => rows[c][s] = prop[c][q].recs[s - prop[c][q].base])
    /\ \A s \in DOMAIN ident[c] :
          /\ prop[c][ident[c][s]].base < s /\ s <= prop[c][ident[c][s]].last
          /\ s <= LogEnd(c)
    \* proposals chain: each starts at 0 or where another one ends
    /\ \A q \in DOMAIN prop[c] : prop[c][q].base = 0 \/ \E p \in DOMAIN prop[c] : prop[c][p].last = prop[c][q].base

\* C07: an exact append that is reported durable landed exactly on log end + 1 = b + 1 and
\* left every other row as it was; a retry that is reported already durable changes no row,
\* no index, no identity and no log end (cached or durable), whichever proposal is retried
\* and whatever watermark it carries; a refused one changes nothing durable.
C07_ExactAtEnd ==
  [][ev'.a = "ExAppend" =>
       LET c == ev'.c IN
       /\ (ev'.res.out = "durable" =>
             /\ ev'.b = LogEnd(c) /\ ev'.res.base = LogEnd(c) + 1 /\ ev'.res.last = LogEndP(c)
             /\ \A s \in RowSeqs(c) : s \in DOMAIN rows'[c] /\ rows'[c][s] = rows[c][s]
             /\ \A i \in 1..Len(ev'.recs) : rows'[c][ev'.b + i] = ev'.recs[i]
             /\ mem'[c].leo = ev'.res.last)
       /\ (ev'.res.out = "already" =>
             /\ <<rows, ret, idem, cli, snd, idIdx, ident, prop>>' = <<rows, ret, idem, cli, snd, idIdx, ident, prop>>
             /\ mem' = mem
             /\ CkHWP(c) >= CkHW(c)
             /\ ev'.res.last <= LogEnd(c))
       /\ (ev'.res.out = "none" => durableX' = durableX /\ mem'[c].leo = mem[c].leo)
       /\ \A d \in Chans \ {c} : rows'[d] = rows[d] /\ ident'[d] = ident[d] /\ prop'[d] = prop[d]]_xvars

\* C07: a suffix replacement keeps everything at or below `keep` and ends the log at the
\* end of the installed proposals.
C07_ReplaceKeeps ==
  [][ev'.a = "Replace" =>
       LET c == ev'.c IN
       IF ev'.res.err = ""
         THEN /\ \A s \in RowSeqs(c) : s <= ev'.keep => s \in DOMAIN rows'[c] /\ rows'[c][s] = rows[c][s]
              /\ \A s \in DOMAIN rows'[c] : s <= ev'.keep => s \in RowSeqs(c)
              /\ mem'[c].leo = ev'.res.last /\ LogEndP(c) = ev'.res.last
         ELSE durableX' = durableX /\ mem' = mem]_xvars

\* C07 (reopen neutrality) and C08 (duplicates) extended to the added state and action.
C07_ReopenNeutralX ==
  [][ev'.a \in {"OpenLease", "CloseLease", "CloseDB", "OpenDB"} => durableX' = durableX]_xvars
C08_DuplicateRejectedX ==
  [][ev'.a = "ExAppend" /\ ev'.res.out # "already"
       /\ (\/ DupInBatch(ev'.recs)
           \/ \E i \in 1..Len(ev'.recs) :
                 \/ HasKey(ev'.recs[i]) /\ KeyOf(ev'.recs[i]) \in DOMAIN idem[ev'.c]
                 \/ ev'.mode = "strict" /\ ev'.recs[i].id \in DOMAIN idIdx)
     => ev'.res.err = "rejected" /\ durableX' = durableX]_xvars

\* ---- multi-item calls (ExBatch)
\* C07: a call of one item is the single-item call (the two descriptions of the code agree).
C07_BatchOfOneIsExAppend ==
  [][ev'.a = "ExAppend" =>
       LET run == BRun(<< BItem(ev'.c, ev'.pid, ev'.b, ev'.recs, ev'.mode, ev'.hw) >>)
       IN run.res[1] = ev'.res /\ BatchCommit(run.A, {ev'.c})]_xvars

\* C07: the items of a call that are reported durable occupy, per channel and in the order of
\* the call, adjacent ranges that start at log end + 1 and end at the new (cached and durable)
\* log end; every row stored before is unchanged; an item reported already durable is stored
\* with its content after the call (a replay inside the call is answered together with the
\* commit of what it replays); a call without a durable item and without a raised watermark
\* changes nothing durable.
DurIdx(items, res, c) == {i \in 1..Len(items) : items[i].c = c /\ res[i].out = "durable"}
C07_BatchAtEnd ==
  [][ev'.a = "ExBatch" =>
       LET items == ev'.items
           res   == ev'.res.items
       IN /\ \A c \in Chans :
               LET D == DurIdx(items, res, c) IN
               /\ \A s \in RowSeqs(c) : s \in DOMAIN rows'[c] /\ rows'[c][s] = rows[c][s]
               /\ (D = {} => rows'[c] = rows[c] /\ ident'[c] = ident[c] /\ prop'[c] = prop[c] /\ mem'[c].leo = mem[c].leo)
               /\ \A i \in D :
                    /\ res[i].base = items[i].b + 1 /\ res[i].last = items[i].b + Len(items[i].recs)
                    /\ items[i].b = (IF \E k \in D : k < i THEN res[Max({k \in D : k < i})].last ELSE LogEnd(c))
                    /\ \A n \in 1..Len(items[i].recs) : rows'[c][items[i].b + n] = items[i].recs[n]
               /\ (D # {} => mem'[c].leo = res[Max(D)].last /\ LogEndP(c) = res[Max(D)].last)
          /\ \A i \in 1..Len(items) :
               res[i].out = "already" =>
                 /\ items[i].pid \in DOMAIN prop'[items[i].c]
                 /\ prop'[items[i].c][items[i].pid] = [base |-> items[i].b, last |-> items[i].b + Len(items[i].recs), recs |-> items[i].recs]
                 /\ res[i].last <= LogEndP(items[i].c)
          /\ ((\A i \in 1..Len(items) : res[i].out = "none") => durableX' = durableX)]_xvars

\* C08: inside one call a duplicate is rejected exactly like a duplicate across calls: an item
\* (not an exact replay) that repeats a stored key, a stored id (strict mode), a key or an id
\* within itself, or a key or an id of an earlier item of the same call and channel that is
\* reported durable, is rejected.
C08_BatchDuplicateRejected ==
  [][ev'.a = "ExBatch" =>
       LET items == ev'.items
           res   == ev'.res.items
       IN \A j \in 1..Len(items) :
            LET it == items[j] IN
            (/\ res[j].out # "already"
             /\ \/ DupInBatch(it.recs)
                \/ \E n \in 1..Len(it.recs) :
                      \/ HasKey(it.recs[n]) /\ KeyOf(it.recs[n]) \in DOMAIN idem[it.c]
                      \/ it.mode = "strict" /\ it.recs[n].id \in DOMAIN idIdx
                \/ \E k \in 1..(j - 1) :
                      /\ items[k].c = it.c /\ res[k].out = "durable"
                      /\ (IdsOf(items[k].recs) \cap IdsOf(it.recs) # {} \/ KeysOf(items[k].recs) \cap KeysOf(it.recs) # {}))
            => res[j].err = "rejected"]_xvars

ViewX == <<rows, ret, ckpt, idem, cli, snd, idIdx, mem, open, dbOpen, cfg, ident, prop>>
===============================================================================

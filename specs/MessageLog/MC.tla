---------------------------------- MODULE MC ----------------------------------
(* Exhaustive model checking of MessageLog with the exact-proposal path (MessageLogX):
   the probe lists (sequences cannot be written in a TLC configuration file) and nothing
   else. *)
EXTENDS MessageLogX
MCProbeIds   == << 1, 2, 3 >>
MCProbeFroms == << "u1" >>
MCProbeNos   == << "n1" >>
MCProbePids  == << 1, 2 >>
===============================================================================

---------------------------------- MODULE MC ----------------------------------
(* Exhaustive model checking of MessageLog: the probe lists (sequences cannot be written
   in a TLC configuration file) and nothing else. *)
EXTENDS MessageLog
MCProbeIds   == << 1, 2, 3 >>
MCProbeFroms == << "u1" >>
MCProbeNos   == << "n1" >>
===============================================================================

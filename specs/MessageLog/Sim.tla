--------------------------------- MODULE Sim ---------------------------------
(* Behaviour generator: `tlc -simulate` on this module prints one JSON behaviour per
   line ("BEH {...}") when a run reaches Depth steps.  Every step carries the call, the
   reply the specification determines and the projection of the abstract state.

   One successor per action kind (arguments drawn with RandomElement), so that
   `-simulate` chooses uniformly among kinds; "aimed" kinds draw arguments that make the
   call interesting in the current state (a colliding key, an id that is stored, a
   truncation inside the stored rows, a trim inside the log, the reopen of a channel
   whose entry was just reclaimed, the exact retry of an older proposal that still raises
   the watermark ...).

   Every behaviour has a focus, drawn with its initial state: the configured one
   ("log": C07, truncation / retention / reopen; "dup": C08, collisions / reclaim / reopen)
   or "exact" (compat surface: chains of exact proposals, their retries, suffix
   replacement, interleaved with everything else at a lower rate). *)
EXTENDS MessageLogX, Json
CONSTANTS Depth,
          Focus   \* "log" or "dup"
VARIABLES hist, focus

SimProbeIds   == SetToSortSeq(Ids, <)
SimProbeFroms == << "u1", "u2" >>
SimProbeNos   == << "n1", "n2" >>
SimProbePids  == SetToSortSeq(Pids, <)

SimInit ==
  /\ InitX
  /\ focus \in {Focus, "exact"}
  /\ (focus = "exact" => cfg.surface = "compat")
  /\ hist = << [ev |-> ev, st |-> CurX] >>

Pick(S) == {RandomElement(S)}
OpenCh  == {c \in Chans : Usable(c)}
ShutCh  == {c \in Chans : dbOpen /\ open[c] = 0}
Fresh   == Ids \ DOMAIN idIdx
Stored(c) == {rows[c][s] : s \in RowSeqs(c)}
Keyed(c)  == {r \in Stored(c) : HasKey(r)}

RandRec   == [id |-> RandomElement(Ids), from |-> RandomElement(Froms), no |-> RandomElement(Nos), p |-> RandomElement(Pays)]
FreshRec  == [id |-> RandomElement(Fresh), from |-> RandomElement(Froms), no |-> RandomElement(Nos), p |-> RandomElement(Pays)]
\* a fresh id whose key is not stored in c either (acceptable to every mode)
CleanRecs(c) == {r \in [id : Fresh, from : Froms, no : Nos, p : Pays] : HasKey(r) => KeyOf(r) \notin DOMAIN idem[c]}
RandBatch  == [i \in 1..RandomElement(1..MaxBatch) |-> RandRec]
FreshBatch == [i \in 1..RandomElement(1..MaxBatch) |-> FreshRec]
Seq1(r)    == << r >>
\* a second clean record that can share a batch with r1
Clean2(c, r1) == {r \in CleanRecs(c) : r.id # r1.id /\ (HasKey(r) /\ HasKey(r1) => KeyOf(r) # KeyOf(r1))}

Exact == focus = "exact"
Dup   == focus = "dup"
\* in the exact focus everything that is not about proposals happens at a lower rate
Thin(n) == ~Exact \/ RandomElement(1..n) = 1

\* ---- leases and database
Leases ==
  \/ \E c \in Pick(Chans) : OpenLease(c)
  \/ ShutCh # {} /\ \E c \in Pick(ShutCh) : OpenLease(c)
  \/ RandomElement(1..(IF Dup THEN 2 ELSE 3)) = 1 /\ \E c \in Pick(Chans) : CloseLease(c)
  \/ RandomElement(1..(IF Dup THEN 5 ELSE 8)) = 1 /\ CloseDB
  \/ OpenCh # {} /\ RandomElement(1..(IF Dup THEN 2 ELSE 4)) = 1 /\ \E c \in Pick(OpenCh) : CloseLease(c)
  \/ OpenDB

\* ---- appends
Appends ==
  \/ OpenCh # {} /\ \E c \in Pick(OpenCh), m \in Pick(Modes) : DoAppend(c, m, 0, RandBatch)
  \/ OpenCh # {} /\ Fresh # {} /\ \E c \in Pick(OpenCh), m \in Pick(Modes) : DoAppend(c, m, 0, FreshBatch)
  \/ OpenCh # {} /\ \E c \in Pick(OpenCh) : CleanRecs(c) # {} /\
        \E m \in Pick(Modes), r \in Pick(CleanRecs(c)) : DoAppend(c, m, 0, Seq1(r))
  \/ OpenCh # {} /\ \E c \in Pick(OpenCh) : CleanRecs(c) # {} /\
        \E m \in Pick(Modes), r1 \in Pick(CleanRecs(c)), r2 \in Pick(CleanRecs(c)) : DoAppend(c, m, 0, << r1, r2 >>)
  \* colliding (sender, client number): a stored key under a fresh id, alone or behind a clean record
  \/ OpenCh # {} /\ Fresh # {} /\ \E c \in Pick(OpenCh) : Keyed(c) # {} /\
        \E m \in Pick({"strict", "alloc"}), k \in Pick(Keyed(c)), id \in Pick(Fresh), p \in Pick(Pays) :
           DoAppend(c, m, 0, Seq1([id |-> id, from |-> k.from, no |-> k.no, p |-> p]))
  \/ OpenCh # {} /\ Fresh # {} /\ \E c \in Pick(OpenCh) : Keyed(c) # {} /\ CleanRecs(c) # {} /\
        \E m \in Pick({"strict", "alloc"}), k \in Pick(Keyed(c)), id \in Pick(Fresh), r \in Pick(CleanRecs(c)) :
           DoAppend(c, m, 0, << r, [id |-> id, from |-> k.from, no |-> k.no, p |-> r.p] >>)
  \/ Dup /\ OpenCh # {} /\ Fresh # {} /\ \E c \in Pick(OpenCh) : Keyed(c) # {} /\
        \E m \in Pick({"strict", "alloc"}), k \in Pick(Keyed(c)), id \in Pick(Fresh), p \in Pick(Pays) :
           DoAppend(c, m, 0, Seq1([id |-> id, from |-> k.from, no |-> k.no, p |-> p]))
  \/ Dup /\ OpenCh # {} /\ Fresh # {} /\ \E c \in Pick(OpenCh) : Keyed(c) # {} /\
        \E k \in Pick(Keyed(c)), id \in Pick(Fresh), p \in Pick(Pays) :
           DoApply(c, "strict", 0, Seq1([id |-> id, from |-> k.from, no |-> k.no, p |-> p]), 0)
  \* a keyed record arriving by a trusted apply / append (the filter must learn it)
  \/ Dup /\ OpenCh # {} /\ \E c \in Pick(OpenCh) :
        LET K == {r \in CleanRecs(c) : HasKey(r)} IN K # {} /\
        \E r \in Pick(K), viaApply \in Pick({TRUE, FALSE}) :
           IF viaApply THEN DoApply(c, "trusted", 0, Seq1(r), 0) ELSE DoAppend(c, "trusted", 0, Seq1(r))
  \* the empty payload (variant 9): rare, it is a reported finding on the typed surface
  \/ RandomElement(1..30) = 1 /\ OpenCh # {} /\ \E c \in Pick(OpenCh) : CleanRecs(c) # {} /\
        \E m \in Pick(Modes), r \in Pick(CleanRecs(c)) : DoAppend(c, m, 0, Seq1([r EXCEPT !.p = 9]))
  \* colliding id (strict mode), possibly stored in the other channel
  \/ OpenCh # {} /\ DOMAIN idIdx # {} /\ \E c \in Pick(OpenCh), id \in Pick(DOMAIN idIdx) :
        DoAppend(c, "strict", 0, Seq1([id |-> id, from |-> RandomElement(Froms), no |-> RandomElement(Nos), p |-> RandomElement(Pays)]))
  \* duplicates inside the batch, every mode
  \/ OpenCh # {} /\ \E c \in Pick(OpenCh) : CleanRecs(c) # {} /\
        \E m \in Pick(Modes), r \in Pick(CleanRecs(c)), id \in Pick(Fresh) :
           DoAppend(c, m, 0, << r, [r EXCEPT !.id = id] >>)
  \/ OpenCh # {} /\ \E c \in Pick(OpenCh) : LET K == {r \in CleanRecs(c) : HasKey(r)} IN K # {} /\ Cardinality(Fresh) >= 3 /\
        \E m \in Pick(Modes), r0 \in Pick(CleanRecs(c)), r \in Pick(K) :
           \E id1 \in Pick(Fresh \ {r0.id}) : \E id2 \in Pick(Fresh \ {r0.id, id1}) :
             (~HasKey(r0) \/ KeyOf(r0) # KeyOf(r)) /\
             DoAppend(c, m, 0, << r0, [r EXCEPT !.id = id1], [r EXCEPT !.id = id2] >>)
  \* pinned base (typed): right and wrong
  \/ OpenCh # {} /\ \E c \in Pick(OpenCh) : CleanRecs(c) # {} /\
        \E r \in Pick(CleanRecs(c)), b \in Pick({0, 1, 1, 2}) : DoAppend(c, "strict", Leo(c) + b, Seq1(r))
  \/ OpenCh # {} /\ \E c \in Pick(OpenCh) : DoAppend(c, "strict", 0, << >>)

\* ---- follower applies
Applies ==
  \/ OpenCh # {} /\ \E c \in Pick(OpenCh) : CleanRecs(c) # {} /\
        \E m \in Pick({"strict", "trusted"}), r \in Pick(CleanRecs(c)), hw \in Pick({0, 0, Leo(c), Leo(c) + 1, Leo(c) + 2}) :
           DoApply(c, m, 0, Seq1(r), hw)
  \/ OpenCh # {} /\ \E c \in Pick(OpenCh) : CleanRecs(c) # {} /\
        \E r1 \in Pick(CleanRecs(c)), r2 \in Pick(CleanRecs(c)), b \in Pick({0, 1, 1, 1, 2}), hw \in Pick({0, 0, Leo(c) + 1, Leo(c) + 2, Leo(c) + 3}) :
           DoApply(c, "trusted", IF b = 0 THEN 0 ELSE Leo(c) + b, << r1, r2 >>, hw)
  \/ OpenCh # {} /\ Fresh # {} /\ \E c \in Pick(OpenCh) : \E m \in Pick({"strict", "trusted"}) :
        DoApply(c, m, 0, FreshBatch, 0)
  \/ OpenCh # {} /\ \E c \in Pick(OpenCh) : \E hw \in Pick({1, Leo(c), Leo(c) + 1}) : DoApply(c, "trusted", 0, << >>, hw)

\* ---- truncation (also removes the proposals above the target)
Truncs ==
  \/ OpenCh # {} /\ \E c \in Pick(OpenCh) : \E to \in Pick(0..(Leo(c) + 1)) : XTruncate(c, to)
  \/ OpenCh # {} /\ \E c \in Pick(OpenCh) : RowSeqs(c) # {} /\ \E s \in Pick(RowSeqs(c)) : XTruncate(c, s - 1)
  \/ OpenCh # {} /\ \E c \in Pick(OpenCh) : Leo(c) > 0 /\ XTruncate(c, Leo(c) - 1)

\* ---- retention
Retention ==
  \/ OpenCh # {} /\ \E c \in Pick(OpenCh) : \E t \in Pick(0..MinOf(MaxSeq, Leo(c) + 2)) : Adopt(c, t)
  \/ OpenCh # {} /\ \E c \in Pick(OpenCh) : Leo(c) > 0 /\ \E t \in Pick(1..Leo(c)) : Adopt(c, t)
  \/ OpenCh # {} /\ \E c \in Pick(OpenCh) : \E t \in Pick(0..MinOf(MaxSeq, Leo(c) + 2)), lim \in Pick({0, 1, 2}) : Trim(c, t, lim)
  \/ OpenCh # {} /\ \E c \in Pick(OpenCh) : Leo(c) > 0 /\ \E t \in Pick(1..Leo(c)), lim \in Pick({0, 1, 2}) : Trim(c, t, lim)
  \/ OpenCh # {} /\ \E c \in Pick(OpenCh) : ret[c].has /\ \E lim \in Pick({0, 1}) : Trim(c, ret[c].local, lim)

\* ---- checkpoints
Ckpts ==
  \/ OpenCh # {} /\ \E c \in Pick(OpenCh), hw \in Pick(HWs) : Ckpt(c, hw)
  \/ OpenCh # {} /\ \E c \in Pick(OpenCh) : \E hw \in Pick({1, Leo(c), Leo(c) + 1} \cup HWs) : CkptMono(c, hw)

\* ---- exact proposals (compat surface)
Ends(c)     == {0} \cup {prop[c][q].last : q \in DOMAIN prop[c]}
FreePids(c) == Pids \ DOMAIN prop[c]
Above(c, k) == {q \in DOMAIN prop[c] : prop[c][q].last > k}
XMode       == RandomElement({"strict", "alloc"})
Room(c, n)  == Leo(c) + n <= MaxSeq

OlderRaise ==
  OpenCh # {} /\ \E c \in Pick(OpenCh) :
     LET Q == {q \in DOMAIN prop[c] : prop[c][q].last < Leo(c) /\ CkHW(c) < prop[c][q].last}
     IN Q # {} /\ \E q \in Pick(Q) : \E hw \in Pick((CkHW(c) + 1)..prop[c][q].last) :
          ExAppend(c, q, prop[c][q].base, prop[c][q].recs, XMode, hw)

ExactOps ==
  \* a new command at the frontier, one or two records, with or without a committed value
  \/ OpenCh # {} /\ \E c \in Pick(OpenCh) : CleanRecs(c) # {} /\ FreePids(c) # {} /\ Room(c, 1) /\
        \E q \in Pick(FreePids(c)), r \in Pick(CleanRecs(c)), hw \in Pick({0, 0, 0, 0, Leo(c) + 1}) :
           ExAppend(c, q, Leo(c), Seq1(r), XMode, hw)
  \/ OpenCh # {} /\ \E c \in Pick(OpenCh) : CleanRecs(c) # {} /\ FreePids(c) # {} /\ Room(c, 2) /\
        \E q \in Pick(FreePids(c)), r1 \in Pick(CleanRecs(c)) : Clean2(c, r1) # {} /\
          \E r2 \in Pick(Clean2(c, r1)), hw \in Pick({0, 0, 0, Leo(c) + 1, Leo(c) + 2}) :
             ExAppend(c, q, Leo(c), << r1, r2 >>, XMode, hw)
  \* in the exact focus the chain is extended more often than anything else
  \/ Exact /\ OpenCh # {} /\ \E c \in Pick(OpenCh) : CleanRecs(c) # {} /\ FreePids(c) # {} /\ Room(c, 1) /\
        (Leo(c) \in Ends(c)) /\
        \E q \in Pick(FreePids(c)), r \in Pick(CleanRecs(c)) : ExAppend(c, q, Leo(c), Seq1(r), XMode, 0)
  \* exact retry of a stored command, the tail one or an older one, any committed value it may carry
  \/ OpenCh # {} /\ \E c \in Pick(OpenCh) : DOMAIN prop[c] # {} /\
        \E q \in Pick(DOMAIN prop[c]) : \E hw \in Pick(0..prop[c][q].last) :
           ExAppend(c, q, prop[c][q].base, prop[c][q].recs, "strict", hw)
  \* ... of an OLDER command whose committed value still raises the stored watermark
  \/ OlderRaise
  \/ Exact /\ OlderRaise
  \* ... of the tail command with a raise
  \/ OpenCh # {} /\ \E c \in Pick(OpenCh) :
        LET Q == {q \in DOMAIN prop[c] : prop[c][q].last = Leo(c) /\ CkHW(c) < prop[c][q].last}
        IN Q # {} /\ \E q \in Pick(Q) : \E hw \in Pick((CkHW(c) + 1)..prop[c][q].last) :
             ExAppend(c, q, prop[c][q].base, prop[c][q].recs, XMode, hw)
  \* a gap, a taken range, a base that is no proposal end
  \/ OpenCh # {} /\ \E c \in Pick(OpenCh) : CleanRecs(c) # {} /\ FreePids(c) # {} /\
        \E q \in Pick(FreePids(c)), r \in Pick(CleanRecs(c)), b \in Pick(Ends(c) \cup {Leo(c) + 1, Leo(c) + 2} \cup 0..Leo(c)) :
           b + 1 <= MaxSeq /\ ExAppend(c, q, b, Seq1(r), "strict", 0)
  \* a stored command offered with other content or at another base
  \/ OpenCh # {} /\ \E c \in Pick(OpenCh) : DOMAIN prop[c] # {} /\ CleanRecs(c) # {} /\
        \E q \in Pick(DOMAIN prop[c]), r \in Pick(CleanRecs(c)) : \E b \in Pick({prop[c][q].base, Leo(c)}) :
           b + 1 <= MaxSeq /\ ExAppend(c, q, b, Seq1(r), "strict", 0)
  \* duplicates offered through the exact path (C08): a stored key under a fresh id, twice in the batch, a stored id
  \/ OpenCh # {} /\ Fresh # {} /\ \E c \in Pick(OpenCh) : Keyed(c) # {} /\ FreePids(c) # {} /\ Room(c, 1) /\
        \E q \in Pick(FreePids(c)), k \in Pick(Keyed(c)), id \in Pick(Fresh), p \in Pick(Pays) :
           ExAppend(c, q, Leo(c), Seq1([id |-> id, from |-> k.from, no |-> k.no, p |-> p]), XMode, 0)
  \/ OpenCh # {} /\ \E c \in Pick(OpenCh) : CleanRecs(c) # {} /\ Cardinality(Fresh) >= 2 /\ FreePids(c) # {} /\ Room(c, 2) /\
        \E q \in Pick(FreePids(c)), r \in Pick(CleanRecs(c)) : \E id \in Pick(Fresh \ {r.id}) :
           ExAppend(c, q, Leo(c), << r, [r EXCEPT !.id = id] >>, XMode, 0)
  \/ OpenCh # {} /\ DOMAIN idIdx # {} /\ \E c \in Pick(OpenCh) : FreePids(c) # {} /\ Room(c, 1) /\
        \E q \in Pick(FreePids(c)), id \in Pick(DOMAIN idIdx) :
           ExAppend(c, q, Leo(c), Seq1([id |-> id, from |-> RandomElement(Froms), no |-> RandomElement(Nos), p |-> RandomElement(Pays)]), "strict", 0)
  \* suffix replacement: one proposal, two proposals (possibly re-installing a removed row / command), none
  \/ OpenCh # {} /\ \E c \in Pick(OpenCh) : CleanRecs(c) # {} /\
        \E keep \in Pick({e \in Ends(c) : e >= CkHW(c)} \cup {Leo(c)}) : keep + 1 <= MaxSeq /\
          LET P == FreePids(c) \cup Above(c, keep)
              R == CleanRecs(c) \cup {rows[c][s] : s \in {t \in RowSeqs(c) : t > keep}}
          IN P # {} /\ \E q \in Pick(P), r \in Pick(R), hw \in Pick(CkHW(c)..MaxOf(CkHW(c), keep + 1)) :
               hw <= keep + 1 /\ Replace(c, keep, << [pid |-> q, recs |-> Seq1(r)] >>, hw)
  \/ OpenCh # {} /\ \E c \in Pick(OpenCh) : CleanRecs(c) # {} /\
        \E keep \in Pick({e \in Ends(c) : e >= CkHW(c)}) : keep + 2 <= MaxSeq /\
          LET P == FreePids(c) \cup Above(c, keep) IN
          Cardinality(P) >= 2 /\ \E q1 \in Pick(P), r1 \in Pick(CleanRecs(c)) : Clean2(c, r1) # {} /\
            \E q2 \in Pick(P \ {q1}), r2 \in Pick(Clean2(c, r1)), hw \in Pick(CkHW(c)..MaxOf(CkHW(c), keep + 2)) :
               hw <= keep + 2 /\ Replace(c, keep, << [pid |-> q1, recs |-> Seq1(r1)], [pid |-> q2, recs |-> Seq1(r2)] >>, hw)
  \/ OpenCh # {} /\ \E c \in Pick(OpenCh) : \E keep \in Pick(Ends(c)) : \E hw \in Pick({CkHW(c), keep}) :
        hw <= keep /\ Replace(c, keep, << >>, hw)
  \* ... with arguments drawn blindly (mostly refused)
  \/ OpenCh # {} /\ \E c \in Pick(OpenCh) : CleanRecs(c) # {} /\
        \E keep \in Pick(0..MinOf(MaxSeq - 1, Leo(c) + 1)), q \in Pick(Pids), r \in Pick(CleanRecs(c)) : \E hw \in Pick(0..(keep + 1)) :
           Replace(c, keep, << [pid |-> q, recs |-> Seq1(r)] >>, hw)
  \* truncation to the end of a proposal (keeps the chain extendable)
  \/ OpenCh # {} /\ \E c \in Pick(OpenCh) : \E to \in Pick(Ends(c)) : XTruncate(c, to)
  \* a plain append right behind exact proposals (takes its base from the cached log end)
  \/ Exact /\ OpenCh # {} /\ \E c \in Pick(OpenCh) : DOMAIN prop[c] # {} /\ CleanRecs(c) # {} /\
        \E m \in Pick(Modes), r \in Pick(CleanRecs(c)) : RandomElement(1..3) = 1 /\ XAppend(c, m, 0, Seq1(r))

SimStep ==
  \/ Leases /\ KeepX
  \/ Thin(4) /\ Appends /\ KeepX
  \/ Thin(4) /\ Applies /\ KeepX
  \/ Thin(2) /\ Truncs
  \/ Thin(3) /\ Retention /\ KeepX
  \/ Thin(6) /\ Ckpts /\ KeepX
  \/ Compat /\ (Exact \/ RandomElement(1..3) = 1) /\ ExactOps

\* TLC evaluates the invariant on every candidate successor.  After Depth steps the only
\* successor is a stuttering "end" marker, so each simulated trace prints exactly once.
\* hist keeps snapshots of the variables (cheap) and the projection is computed when the
\* behaviour is printed (TLCEval: evaluate once, eagerly; lazily it is 60x slower).
SimNext ==
  IF Len(hist) <= Depth
    THEN SimStep /\ hist' = Append(hist, [ev |-> ev', st |-> CurX']) /\ UNCHANGED focus
    ELSE UNCHANGED xvars /\ UNCHANGED focus /\ hist' = Append(hist, [ev |-> [a |-> "End"], st |-> 0])
Emit == Len(hist) = Depth + 2 =>
          PrintT("BEH " \o ToJson([steps |-> [i \in 1..(Depth + 1) |-> TLCEval([ev |-> hist[i].ev, st |-> TLCEval(ProjSX(TLCEval(hist[i].st)))])]]))
===============================================================================

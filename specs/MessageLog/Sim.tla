--------------------------------- MODULE Sim ---------------------------------
(* Behaviour generator: `tlc -simulate` on this module prints one JSON behaviour per
   line ("BEH {...}") when a run reaches Depth steps.  Every step carries the call, the
   reply the specification determines and the projection of the abstract state.

   One successor per action kind (arguments drawn with RandomElement), so that
   `-simulate` chooses uniformly among kinds; "aimed" kinds draw arguments that make the
   call interesting in the current state (a colliding key, an id that is stored, a
   truncation inside the stored rows, a trim inside the log, the reopen of a channel
   whose entry was just reclaimed, the exact retry of an older proposal that still raises
   the watermark ...).

   Every behaviour has a focus, drawn with its initial state: the configured one
   ("log": C07, truncation / retention / reopen; "dup": C08, collisions / reclaim / reopen)
   or "exact" (compat surface: chains of exact proposals, their retries, suffix
   replacement, interleaved with everything else at a lower rate), or, with the "dup" focus
   configured, "cancel": a scripted opening (CancelOps below: stored keys, database reopen, an
   append whose context is cancelled at every point of the filter rebuild, then a duplicate of
   every stored key) followed by "dup" steps. *)
EXTENDS MessageLogX, Json
CONSTANTS Depth,
          Focus   \* "log" or "dup"
VARIABLES hist, focus

SimProbeIds   == SetToSortSeq(Ids, <)
SimProbeFroms == << "u1", "u2" >>
SimProbeNos   == << "n1", "n2" >>
SimProbePids  == SetToSortSeq(Pids, <)

SimInit ==
  /\ InitX
  /\ focus \in {Focus, "exact"} \cup (IF Focus = "dup" THEN {"cancel"} ELSE {})
  /\ (focus = "exact" => cfg.surface = "compat")
  /\ hist = << [ev |-> ev, st |-> CurX] >>

Pick(S) == {RandomElement(S)}
OpenCh  == {c \in Chans : Usable(c)}
ShutCh  == {c \in Chans : dbOpen /\ open[c] = 0}
Fresh   == Ids \ DOMAIN idIdx
Stored(c) == {rows[c][s] : s \in RowSeqs(c)}
Keyed(c)  == {r \in Stored(c) : HasKey(r)}

RandRec   == [id |-> RandomElement(Ids), from |-> RandomElement(Froms), no |-> RandomElement(Nos), p |-> RandomElement(Pays)]
FreshRec  == [id |-> RandomElement(Fresh), from |-> RandomElement(Froms), no |-> RandomElement(Nos), p |-> RandomElement(Pays)]
\* a fresh id whose key is not stored in c either (acceptable to every mode)
CleanRecs(c) == {r \in [id : Fresh, from : Froms, no : Nos, p : Pays] : HasKey(r) => KeyOf(r) \notin DOMAIN idem[c]}
RandBatch  == [i \in 1..RandomElement(1..MaxBatch) |-> RandRec]
FreshBatch == [i \in 1..RandomElement(1..MaxBatch) |-> FreshRec]
Seq1(r)    == << r >>
\* a second clean record that can share a batch with r1
Clean2(c, r1) == {r \in CleanRecs(c) : r.id # r1.id /\ (HasKey(r) /\ HasKey(r1) => KeyOf(r) # KeyOf(r1))}

Exact == focus = "exact"
Dup   == focus \in {"dup", "cancel"}
\* in the exact focus everything that is not about proposals happens at a lower rate
Thin(n) == ~Exact \/ RandomElement(1..n) = 1

\* ---- leases and database
Leases ==
  \/ \E c \in Pick(Chans) : OpenLease(c)
  \/ ShutCh # {} /\ \E c \in Pick(ShutCh) : OpenLease(c)
  \/ RandomElement(1..(IF Dup THEN 2 ELSE 3)) = 1 /\ \E c \in Pick(Chans) : CloseLease(c)
  \/ RandomElement(1..(IF Dup THEN 5 ELSE 8)) = 1 /\ CloseDB
  \/ OpenCh # {} /\ RandomElement(1..(IF Dup THEN 2 ELSE 4)) = 1 /\ \E c \in Pick(OpenCh) : CloseLease(c)
  \/ OpenDB
  \* aimed: reopen while some channel's retained floor is above its last physical row
  \/ (\E c \in Chans : ret[c].has /\ RowSeqs(c) # {} /\ ret[c].rmax > LastRow(c)) /\ CloseDB

\* ---- appends
Appends ==
  \/ OpenCh # {} /\ \E c \in Pick(OpenCh), m \in Pick(Modes) : DoAppend(c, m, 0, RandBatch)
  \/ OpenCh # {} /\ Fresh # {} /\ \E c \in Pick(OpenCh), m \in Pick(Modes) : DoAppend(c, m, 0, FreshBatch)
  \/ OpenCh # {} /\ \E c \in Pick(OpenCh) : CleanRecs(c) # {} /\
        \E m \in Pick(Modes), r \in Pick(CleanRecs(c)) : DoAppend(c, m, 0, Seq1(r))
  \/ OpenCh # {} /\ \E c \in Pick(OpenCh) : CleanRecs(c) # {} /\
        \E m \in Pick(Modes), r1 \in Pick(CleanRecs(c)), r2 \in Pick(CleanRecs(c)) : DoAppend(c, m, 0, << r1, r2 >>)
  \* colliding (sender, client number): a stored key under a fresh id, alone or behind a clean record
  \/ OpenCh # {} /\ Fresh # {} /\ \E c \in Pick(OpenCh) : Keyed(c) # {} /\
        \E m \in Pick({"strict", "alloc"}), k \in Pick(Keyed(c)), id \in Pick(Fresh), p \in Pick(Pays) :
           DoAppend(c, m, 0, Seq1([id |-> id, from |-> k.from, no |-> k.no, p |-> p]))
  \/ OpenCh # {} /\ Fresh # {} /\ \E c \in Pick(OpenCh) : Keyed(c) # {} /\ CleanRecs(c) # {} /\
        \E m \in Pick({"strict", "alloc"}), k \in Pick(Keyed(c)), id \in Pick(Fresh), r \in Pick(CleanRecs(c)) :
           DoAppend(c, m, 0, << r, [id |-> id, from |-> k.from, no |-> k.no, p |-> r.p] >>)
  \/ Dup /\ OpenCh # {} /\ Fresh # {} /\ \E c \in Pick(OpenCh) : Keyed(c) # {} /\
        \E m \in Pick({"strict", "alloc"}), k \in Pick(Keyed(c)), id \in Pick(Fresh), p \in Pick(Pays) :
           DoAppend(c, m, 0, Seq1([id |-> id, from |-> k.from, no |-> k.no, p |-> p]))
  \/ Dup /\ OpenCh # {} /\ Fresh # {} /\ \E c \in Pick(OpenCh) : Keyed(c) # {} /\
        \E k \in Pick(Keyed(c)), id \in Pick(Fresh), p \in Pick(Pays) :
           DoApply(c, "strict", 0, Seq1([id |-> id, from |-> k.from, no |-> k.no, p |-> p]), 0)
  \* a keyed record arriving by a trusted apply / append (the filter must learn it)
  \/ Dup /\ OpenCh # {} /\ \E c \in Pick(OpenCh) :
        LET K == {r \in CleanRecs(c) : HasKey(r)} IN K # {} /\
        \E r \in Pick(K), viaApply \in Pick({TRUE, FALSE}) :
           IF viaApply THEN DoApply(c, "trusted", 0, Seq1(r), 0) ELSE DoAppend(c, "trusted", 0, Seq1(r))
  \* the empty payload (variant 9): rare, it is a reported finding on the typed surface
  \/ RandomElement(1..30) = 1 /\ OpenCh # {} /\ \E c \in Pick(OpenCh) : CleanRecs(c) # {} /\
        \E m \in Pick(Modes), r \in Pick(CleanRecs(c)) : DoAppend(c, m, 0, Seq1([r EXCEPT !.p = 9]))
  \* colliding id (strict mode), possibly stored in the other channel
  \/ OpenCh # {} /\ DOMAIN idIdx # {} /\ \E c \in Pick(OpenCh), id \in Pick(DOMAIN idIdx) :
        DoAppend(c, "strict", 0, Seq1([id |-> id, from |-> RandomElement(Froms), no |-> RandomElement(Nos), p |-> RandomElement(Pays)]))
  \* duplicates inside the batch, every mode
  \/ OpenCh # {} /\ \E c \in Pick(OpenCh) : CleanRecs(c) # {} /\
        \E m \in Pick(Modes), r \in Pick(CleanRecs(c)), id \in Pick(Fresh) :
           DoAppend(c, m, 0, << r, [r EXCEPT !.id = id] >>)
  \/ OpenCh # {} /\ \E c \in Pick(OpenCh) : LET K == {r \in CleanRecs(c) : HasKey(r)} IN K # {} /\ Cardinality(Fresh) >= 3 /\
        \E m \in Pick(Modes), r0 \in Pick(CleanRecs(c)), r \in Pick(K) :
           \E id1 \in Pick(Fresh \ {r0.id}) : \E id2 \in Pick(Fresh \ {r0.id, id1}) :
             (~HasKey(r0) \/ KeyOf(r0) # KeyOf(r)) /\
             DoAppend(c, m, 0, << r0, [r EXCEPT !.id = id1], [r EXCEPT !.id = id2] >>)
  \* pinned base (typed): right and wrong
  \/ OpenCh # {} /\ \E c \in Pick(OpenCh) : CleanRecs(c) # {} /\
        \E r \in Pick(CleanRecs(c)), b \in Pick({0, 1, 1, 2}) : DoAppend(c, "strict", Leo(c) + b, Seq1(r))
  \/ OpenCh # {} /\ \E c \in Pick(OpenCh) : DoAppend(c, "strict", 0, << >>)

\* ---- follower applies
Applies ==
  \/ OpenCh # {} /\ \E c \in Pick(OpenCh) : CleanRecs(c) # {} /\
        \E m \in Pick({"strict", "trusted"}), r \in Pick(CleanRecs(c)), hw \in Pick({0, 0, Leo(c), Leo(c) + 1, Leo(c) + 2}) :
           DoApply(c, m, 0, Seq1(r), hw)
  \/ OpenCh # {} /\ \E c \in Pick(OpenCh) : CleanRecs(c) # {} /\
        \E r1 \in Pick(CleanRecs(c)), r2 \in Pick(CleanRecs(c)), b \in Pick({0, 1, 1, 1, 2}), hw \in Pick({0, 0, Leo(c) + 1, Leo(c) + 2, Leo(c) + 3}) :
           DoApply(c, "trusted", IF b = 0 THEN 0 ELSE Leo(c) + b, << r1, r2 >>, hw)
  \/ OpenCh # {} /\ Fresh # {} /\ \E c \in Pick(OpenCh) : \E m \in Pick({"strict", "trusted"}) :
        DoApply(c, m, 0, FreshBatch, 0)
  \/ OpenCh # {} /\ \E c \in Pick(OpenCh) : \E hw \in Pick({1, Leo(c), Leo(c) + 1}) : DoApply(c, "trusted", 0, << >>, hw)

\* ---- truncation (also removes the proposals above the target)
Truncs ==
  \/ OpenCh # {} /\ \E c \in Pick(OpenCh) : \E to \in Pick(0..(Leo(c) + 1)) : XTruncate(c, to)
  \/ OpenCh # {} /\ \E c \in Pick(OpenCh) : RowSeqs(c) # {} /\ \E s \in Pick(RowSeqs(c)) : XTruncate(c, s - 1)
  \/ OpenCh # {} /\ \E c \in Pick(OpenCh) : Leo(c) > 0 /\ XTruncate(c, Leo(c) - 1)

\* ---- retention
Retention ==
  \/ OpenCh # {} /\ \E c \in Pick(OpenCh) : \E t \in Pick(0..MinOf(MaxSeq, Leo(c) + 2)) : Adopt(c, t)
  \/ OpenCh # {} /\ \E c \in Pick(OpenCh) : Leo(c) > 0 /\ \E t \in Pick(1..Leo(c)) : Adopt(c, t)
  \/ OpenCh # {} /\ \E c \in Pick(OpenCh) : \E t \in Pick(0..MinOf(MaxSeq, Leo(c) + 2)), lim \in Pick({0, 1, 2}) : Trim(c, t, lim)
  \/ OpenCh # {} /\ \E c \in Pick(OpenCh) : Leo(c) > 0 /\ \E t \in Pick(1..Leo(c)), lim \in Pick({0, 1, 2}) : Trim(c, t, lim)
  \/ OpenCh # {} /\ \E c \in Pick(OpenCh) : ret[c].has /\ \E lim \in Pick({0, 1}) : Trim(c, ret[c].local, lim)
  \* aimed: a boundary BEYOND the log end while rows are still physically there (the log end is then
  \* the adopted boundary, not the last row) - adopted alone or by a bounded trim step
  \/ LET S == {c \in OpenCh : RowSeqs(c) # {} /\ Leo(c) < MaxSeq} IN
       S # {} /\ \E c \in Pick(S) : Adopt(c, Leo(c) + 1)
  \/ LET S == {c \in OpenCh : RowSeqs(c) # {} /\ Leo(c) < MaxSeq} IN
       S # {} /\ \E c \in Pick(S) : Trim(c, Leo(c) + 1, 1)

\* ---- checkpoints
Ckpts ==
  \/ OpenCh # {} /\ \E c \in Pick(OpenCh), hw \in Pick(HWs) : Ckpt(c, hw)
  \/ OpenCh # {} /\ \E c \in Pick(OpenCh) : \E hw \in Pick({1, Leo(c), Leo(c) + 1} \cup HWs) : CkptMono(c, hw)

\* ---- exact proposals (compat surface)
Ends(c)     == {0} \cup {prop[c][q].last : q \in DOMAIN prop[c]}
FreePids(c) == Pids \ DOMAIN prop[c]
Above(c, k) == {q \in DOMAIN prop[c] : prop[c][q].last > k}
XMode       == RandomElement({"strict", "alloc"})
Room(c, n)  == Leo(c) + n <= MaxSeq

OlderRaise ==
  OpenCh # {} /\ \E c \in Pick(OpenCh) :
     LET Q == {q \in DOMAIN prop[c] : prop[c][q].last < Leo(c) /\ CkHW(c) < prop[c][q].last}
     IN Q # {} /\ \E q \in Pick(Q) : \E hw \in Pick((CkHW(c) + 1)..prop[c][q].last) :
          ExAppend(c, q, prop[c][q].base, prop[c][q].recs, XMode, hw)

ExactOps ==
  \* a new command at the frontier, one or two records, with or without a committed value
  \/ OpenCh # {} /\ \E c \in Pick(OpenCh) : CleanRecs(c) # {} /\ FreePids(c) # {} /\ Room(c, 1) /\
        \E q \in Pick(FreePids(c)), r \in Pick(CleanRecs(c)), hw \in Pick({0, 0, 0, 0, Leo(c) + 1}) :
           ExAppend(c, q, Leo(c), Seq1(r), XMode, hw)
  \/ OpenCh # {} /\ \E c \in Pick(OpenCh) : CleanRecs(c) # {} /\ FreePids(c) # {} /\ Room(c, 2) /\
        \E q \in Pick(FreePids(c)), r1 \in Pick(CleanRecs(c)) : Clean2(c, r1) # {} /\
          \E r2 \in Pick(Clean2(c, r1)), hw \in Pick({0, 0, 0, Leo(c) + 1, Leo(c) + 2}) :
             ExAppend(c, q, Leo(c), << r1, r2 >>, XMode, hw)
  \* in the exact focus the chain is extended more often than anything else
  \/ Exact /\ OpenCh # {} /\ \E c \in Pick(OpenCh) : CleanRecs(c) # {} /\ FreePids(c) # {} /\ Room(c, 1) /\
        (Leo(c) \in Ends(c)) /\
        \E q \in Pick(FreePids(c)), r \in Pick(CleanRecs(c)) : ExAppend(c, q, Leo(c), Seq1(r), XMode, 0)
  \* exact retry of a stored command, the tail one or an older one, any committed value it may carry
  \/ OpenCh # {} /\ \E c \in Pick(OpenCh) : DOMAIN prop[c] # {} /\
        \E q \in Pick(DOMAIN prop[c]) : \E hw \in Pick(0..prop[c][q].last) :
           ExAppend(c, q, prop[c][q].base, prop[c][q].recs, "strict", hw)
  \* ... of an OLDER command whose committed value still raises the stored watermark
  \/ OlderRaise
  \/ Exact /\ OlderRaise
  \* ... of the tail command with a raise
  \/ OpenCh # {} /\ \E c \in Pick(OpenCh) :
        LET Q == {q \in DOMAIN prop[c] : prop[c][q].last = Leo(c) /\ CkHW(c) < prop[c][q].last}
        IN Q # {} /\ \E q \in Pick(Q) : \E hw \in Pick((CkHW(c) + 1)..prop[c][q].last) :
             ExAppend(c, q, prop[c][q].base, prop[c][q].recs, XMode, hw)
  \* a gap, a taken range, a base that is no proposal end
  \/ OpenCh # {} /\ \E c \in Pick(OpenCh) : CleanRecs(c) # {} /\ FreePids(c) # {} /\
        \E q \in Pick(FreePids(c)), r \in Pick(CleanRecs(c)), b \in Pick(Ends(c) \cup {Leo(c) + 1, Leo(c) + 2} \cup 0..Leo(c)) :
           b + 1 <= MaxSeq /\ ExAppend(c, q, b, Seq1(r), "strict", 0)
  \* a stored command offered with other content or at another base
  \/ OpenCh # {} /\ \E c \in Pick(OpenCh) : DOMAIN prop[c] # {} /\ CleanRecs(c) # {} /\
        \E q \in Pick(DOMAIN prop[c]), r \in Pick(CleanRecs(c)) : \E b \in Pick({prop[c][q].base, Leo(c)}) :
           b + 1 <= MaxSeq /\ ExAppend(c, q, b, Seq1(r), "strict", 0)
  \* duplicates offered through the exact path (C08): a stored key under a fresh id, twice in the batch, a stored id
  \/ OpenCh # {} /\ Fresh # {} /\ \E c \in Pick(OpenCh) : Keyed(c) # {} /\ FreePids(c) # {} /\ Room(c, 1) /\
        \E q \in Pick(FreePids(c)), k \in Pick(Keyed(c)), id \in Pick(Fresh), p \in Pick(Pays) :
           ExAppend(c, q, Leo(c), Seq1([id |-> id, from |-> k.from, no |-> k.no, p |-> p]), XMode, 0)
  \/ OpenCh # {} /\ \E c \in Pick(OpenCh) : CleanRecs(c) # {} /\ Cardinality(Fresh) >= 2 /\ FreePids(c) # {} /\ Room(c, 2) /\
        \E q \in Pick(FreePids(c)), r \in Pick(CleanRecs(c)) : \E id \in Pick(Fresh \ {r.id}) :
           ExAppend(c, q, Leo(c), << r, [r EXCEPT !.id = id] >>, XMode, 0)
  \/ OpenCh # {} /\ DOMAIN idIdx # {} /\ \E c \in Pick(OpenCh) : FreePids(c) # {} /\ Room(c, 1) /\
        \E q \in Pick(FreePids(c)), id \in Pick(DOMAIN idIdx) :
           ExAppend(c, q, Leo(c), Seq1([id |-> id, from |-> RandomElement(Froms), no |-> RandomElement(Nos), p |-> RandomElement(Pays)]), "strict", 0)
  \* suffix replacement: one proposal, two proposals (possibly re-installing a removed row / command), none
  \/ OpenCh # {} /\ \E c \in Pick(OpenCh) : CleanRecs(c) # {} /\
        \E keep \in Pick({e \in Ends(c) : e >= CkHW(c)} \cup {Leo(c)}) : keep + 1 <= MaxSeq /\
          LET P == FreePids(c) \cup Above(c, keep)
              R == CleanRecs(c) \cup {rows[c][s] : s \in {t \in RowSeqs(c) : t > keep}}
          IN P # {} /\ \E q \in Pick(P), r \in Pick(R), hw \in Pick(CkHW(c)..MaxOf(CkHW(c), keep + 1)) :
               hw <= keep + 1 /\ Replace(c, keep, << [pid |-> q, recs |-> Seq1(r)] >>, hw)
  \/ OpenCh # {} /\ \E c \in Pick(OpenCh) : CleanRecs(c) # {} /\
        \E keep \in Pick({e \in Ends(c) : e >= CkHW(c)}) : keep + 2 <= MaxSeq /\
          LET P == FreePids(c) \cup Above(c, keep) IN
          Cardinality(P) >= 2 /\ \E q1 \in Pick(P), r1 \in Pick(CleanRecs(c)) : Clean2(c, r1) # {} /\
            \E q2 \in Pick(P \ {q1}), r2 \in Pick(Clean2(c, r1)), hw \in Pick(CkHW(c)..MaxOf(CkHW(c), keep + 2)) :
               hw <= keep + 2 /\ Replace(c, keep, << [pid |-> q1, recs |-> Seq1(r1)], [pid |-> q2, recs |-> Seq1(r2)] >>, hw)
  \/ OpenCh # {} /\ \E c \in Pick(OpenCh) : \E keep \in Pick(Ends(c)) : \E hw \in Pick({CkHW(c), keep}) :
        hw <= keep /\ Replace(c, keep, << >>, hw)
  \* ... with arguments drawn blindly (mostly refused)
  \/ OpenCh # {} /\ \E c \in Pick(OpenCh) : CleanRecs(c) # {} /\
        \E keep \in Pick(0..MinOf(MaxSeq - 1, Leo(c) + 1)), q \in Pick(Pids), r \in Pick(CleanRecs(c)) : \E hw \in Pick(0..(keep + 1)) :
           Replace(c, keep, << [pid |-> q, recs |-> Seq1(r)] >>, hw)
  \* truncation to the end of a proposal (keeps the chain extendable)
  \/ OpenCh # {} /\ \E c \in Pick(OpenCh) : \E to \in Pick(Ends(c)) : XTruncate(c, to)
  \* a plain append right behind exact proposals (takes its base from the cached log end)
  \/ Exact /\ OpenCh # {} /\ \E c \in Pick(OpenCh) : DOMAIN prop[c] # {} /\ CleanRecs(c) # {} /\
        \E m \in Pick(Modes), r \in Pick(CleanRecs(c)) : RandomElement(1..3) = 1 /\ XAppend(c, m, 0, Seq1(r))

\* ---- several exact items in ONE StoreAppendBatch call (compat surface)
KeyedClean(c) == {r \in CleanRecs(c) : HasKey(r)}
\* a clean record that shares neither id nor key with the records of R
CleanBut(c, R) == {r \in CleanRecs(c) : \A x \in R : r.id # x.id /\ (HasKey(r) /\ HasKey(x) => KeyOf(r) # KeyOf(x))}
Whole(c) == {q \in DOMAIN prop[c] : \A s \in (prop[c][q].base + 1)..prop[c][q].last : s \in RowSeqs(c)}

\* channels whose log end is the end of a proposal (a chain can be extended), preferred
TipCh == {c \in OpenCh : Leo(c) \in Ends(c)}
BCh   == IF TipCh # {} /\ RandomElement(1..6) > 1 THEN TipCh ELSE OpenCh

BatchOps ==
  \* a pipelined chain of two new proposals (the second chained behind the first), the second possibly with a committed value
  \/ BCh # {} /\ \E c \in Pick(BCh) : CleanRecs(c) # {} /\ Cardinality(FreePids(c)) >= 2 /\ Room(c, 2) /\
        \E q1 \in Pick(FreePids(c)), r1 \in Pick(CleanRecs(c)), m \in Pick({"strict", "alloc"}) : CleanBut(c, {r1}) # {} /\
          \E q2 \in Pick(FreePids(c) \ {q1}), r2 \in Pick(CleanBut(c, {r1})), hw \in Pick({0, 0, Leo(c) + 1, Leo(c) + 2}), hw1 \in Pick({0, 0, Leo(c) + 1}) :
             ExBatch(<< BItem(c, q1, Leo(c), Seq1(r1), m, hw1), BItem(c, q2, Leo(c) + 1, Seq1(r2), m, hw) >>)
  \* ... of three, the last one with one or two records
  \/ BCh # {} /\ \E c \in Pick(BCh) : CleanRecs(c) # {} /\ Cardinality(FreePids(c)) >= 3 /\ Room(c, 4) /\
        \E q1 \in Pick(FreePids(c)), r1 \in Pick(CleanRecs(c)), m \in Pick({"strict", "alloc"}) : CleanBut(c, {r1}) # {} /\
          \E q2 \in Pick(FreePids(c) \ {q1}), r2 \in Pick(CleanBut(c, {r1})) : CleanBut(c, {r1, r2}) # {} /\
            \E q3 \in Pick(FreePids(c) \ {q1, q2}), r3 \in Pick(CleanBut(c, {r1, r2})) :
               \E l3 \in Pick({Seq1(r3)} \cup {<< r3, x >> : x \in CleanBut(c, {r1, r2, r3})}),
                  hw1 \in Pick({0, 0, Leo(c) + 1}), hw2 \in Pick({0, Leo(c) + 1, Leo(c) + 2}), hw3 \in Pick({0, 0, Leo(c) + 2, Leo(c) + 3}) :
                  ExBatch(<< BItem(c, q1, Leo(c), Seq1(r1), m, hw1), BItem(c, q2, Leo(c) + 1, Seq1(r2), m, hw2),
                             BItem(c, q3, Leo(c) + 2, l3, m, hw3) >>)
  \* C08: the second pipelined proposal repeats the (sender, client number) of the first under another id,
  \* in strict and in server-allocated-id mode; sometimes a clean third one chained behind the first / behind the second
  \/ BCh # {} /\ \E c \in Pick(BCh) : KeyedClean(c) # {} /\ Cardinality(FreePids(c)) >= 3 /\ Room(c, 3) /\
        \E q1 \in Pick(FreePids(c)), r1 \in Pick(KeyedClean(c)), m \in Pick({"strict", "alloc"}) : Fresh \ {r1.id} # {} /\
          \E q2 \in Pick(FreePids(c) \ {q1}), id2 \in Pick(Fresh \ {r1.id}), p2 \in Pick(Pays), third \in Pick({0, 0, 1, 2}) :
             LET i1 == BItem(c, q1, Leo(c), Seq1(r1), m, 0)
                 r2 == [id |-> id2, from |-> r1.from, no |-> r1.no, p |-> p2]
                 i2 == BItem(c, q2, Leo(c) + 1, Seq1(r2), m, 0)
                 R3 == CleanBut(c, {r1, r2})
             IN IF third = 0 \/ R3 = {} THEN ExBatch(<< i1, i2 >>)
                ELSE \E q3 \in Pick(FreePids(c) \ {q1, q2}), r3 \in Pick(R3) :
                        ExBatch(<< i1, i2, BItem(c, q3, Leo(c) + third, Seq1(r3), m, 0) >>)
  \* C08: the second pipelined proposal repeats the message id of the first
  \/ BCh # {} /\ \E c \in Pick(BCh) : CleanRecs(c) # {} /\ Cardinality(FreePids(c)) >= 2 /\ Room(c, 2) /\
        \E q1 \in Pick(FreePids(c)), r1 \in Pick(CleanRecs(c)), m \in Pick({"strict", "alloc"}) : CleanBut(c, {r1}) # {} /\
          \E q2 \in Pick(FreePids(c) \ {q1}), r2 \in Pick(CleanBut(c, {r1})) :
             ExBatch(<< BItem(c, q1, Leo(c), Seq1(r1), m, 0), BItem(c, q2, Leo(c) + 1, Seq1([r2 EXCEPT !.id = r1.id]), m, 0) >>)
  \* a proposal and its own retry in one call, the retry with or without a committed value; sometimes a
  \* further proposal chained behind, before or after the retry
  \/ BCh # {} /\ \E c \in Pick(BCh) : CleanRecs(c) # {} /\ Cardinality(FreePids(c)) >= 2 /\ Room(c, 3) /\
        \E q1 \in Pick(FreePids(c)), r1 \in Pick(CleanRecs(c)), m \in Pick({"strict", "alloc"}), more \in Pick({0, 0, 1, 2}) :
          \E l1 \in Pick({Seq1(r1)} \cup {<< r1, x >> : x \in CleanBut(c, {r1})}) :
            \E rhw \in Pick({0, 0, Leo(c) + 1, Leo(c) + Len(l1)}) :
              LET i1 == BItem(c, q1, Leo(c), l1, m, 0)
                  rt == BItem(c, q1, Leo(c), l1, m, rhw)
                  R3 == CleanBut(c, {l1[i] : i \in 1..Len(l1)})
              IN IF more = 0 \/ R3 = {} THEN ExBatch(<< i1, rt >>)
                 ELSE \E q2 \in Pick(FreePids(c) \ {q1}), r3 \in Pick(R3) :
                        LET nx == BItem(c, q2, Leo(c) + Len(l1), Seq1(r3), m, 0)
                        IN IF more = 1 THEN ExBatch(<< i1, rt, nx >>) ELSE ExBatch(<< i1, nx, rt >>)
  \* items of two channels in one call (one physical commit), one of them possibly a chain of two
  \/ Cardinality(OpenCh) >= 2 /\ \E c \in Pick(OpenCh) : \E d \in Pick(OpenCh \ {c}) :
        CleanRecs(c) # {} /\ CleanRecs(d) # {} /\ FreePids(c) # {} /\ FreePids(d) # {} /\ Room(c, 2) /\ Room(d, 1) /\
        \E q1 \in Pick(FreePids(c)), r1 \in Pick(CleanRecs(c)), m \in Pick({"strict", "alloc"}), m2 \in Pick({"strict", "alloc"}) :
          LET RD == {r \in CleanRecs(d) : r.id # r1.id} IN RD # {} /\
          \E qd \in Pick(FreePids(d)), rd \in Pick(RD), hw \in Pick({0, 0, Leo(c) + 1}), chain \in Pick({TRUE, FALSE}) :
             LET i1 == BItem(c, q1, Leo(c), Seq1(r1), m, hw)
                 id == BItem(d, qd, Leo(d), Seq1(rd), m2, 0)
                 R2 == {r \in CleanBut(c, {r1}) : r.id # rd.id}
             IN IF chain /\ R2 # {} /\ FreePids(c) \ {q1} # {}
                  THEN \E q2 \in Pick(FreePids(c) \ {q1}), r2 \in Pick(R2) :
                          ExBatch(<< i1, id, BItem(c, q2, Leo(c) + 1, Seq1(r2), m, 0) >>)
                  ELSE ExBatch(<< i1, id >>)
  \* the replay of a stored proposal (possibly raising the watermark) next to a new proposal, in either order
  \/ BCh # {} /\ \E c \in Pick(BCh) : Whole(c) # {} /\ CleanRecs(c) # {} /\ FreePids(c) # {} /\ Room(c, 1) /\
        \E q \in Pick(Whole(c)), q1 \in Pick(FreePids(c)), r1 \in Pick(CleanRecs(c)), m \in Pick({"strict", "alloc"}), first \in Pick({TRUE, FALSE}) :
          \E hw \in Pick({0} \cup (IF CkHW(c) < prop[c][q].last THEN (CkHW(c) + 1)..prop[c][q].last ELSE {})) :
             LET old == BItem(c, q, prop[c][q].base, prop[c][q].recs, "strict", hw)
                 new == BItem(c, q1, Leo(c), Seq1(r1), m, 0)
             IN IF first THEN ExBatch(<< old, new >>) ELSE ExBatch(<< new, old >>)
  \* refused shapes: a gap behind the first item, the first item's command again with other content, a gap first
  \/ BCh # {} /\ \E c \in Pick(BCh) : CleanRecs(c) # {} /\ Cardinality(FreePids(c)) >= 2 /\ Room(c, 3) /\
        \E q1 \in Pick(FreePids(c)), r1 \in Pick(CleanRecs(c)), m \in Pick({"strict", "alloc"}), shape \in Pick({1, 2, 3, 4}) : CleanBut(c, {r1}) # {} /\
          \E q2 \in Pick(FreePids(c) \ {q1}), r2 \in Pick(CleanBut(c, {r1})) :
             CASE shape = 1 -> ExBatch(<< BItem(c, q1, Leo(c), Seq1(r1), m, 0), BItem(c, q2, Leo(c) + 2, Seq1(r2), m, 0) >>)
               [] shape = 2 -> ExBatch(<< BItem(c, q1, Leo(c), Seq1(r1), m, 0), BItem(c, q1, Leo(c), Seq1(r2), m, 0) >>)
               [] shape = 3 -> ExBatch(<< BItem(c, q1, Leo(c), Seq1(r1), m, 0), BItem(c, q1, Leo(c) + 1, Seq1(r2), m, 0) >>)
               [] shape = 4 -> ExBatch(<< BItem(c, q1, Leo(c) + 1, Seq1(r1), m, 0), BItem(c, q2, Leo(c), Seq1(r2), m, 0) >>)
  \* C08: a stored key under a fresh id in the first or in the second of two pipelined items
  \/ BCh # {} /\ Fresh # {} /\ \E c \in Pick(BCh) : Keyed(c) # {} /\ CleanRecs(c) # {} /\ Cardinality(FreePids(c)) >= 2 /\ Room(c, 2) /\
        \E q1 \in Pick(FreePids(c)), k \in Pick(Keyed(c)), id \in Pick(Fresh), p \in Pick(Pays), m \in Pick({"strict", "alloc"}), second \in Pick({TRUE, FALSE}) :
          LET rk == [id |-> id, from |-> k.from, no |-> k.no, p |-> p]
              R  == CleanBut(c, {rk})
          IN R # {} /\ \E q2 \in Pick(FreePids(c) \ {q1}), r \in Pick(R) :
               IF second THEN ExBatch(<< BItem(c, q1, Leo(c), Seq1(r), m, 0), BItem(c, q2, Leo(c) + 1, Seq1(rk), m, 0) >>)
               ELSE ExBatch(<< BItem(c, q1, Leo(c), Seq1(rk), m, 0), BItem(c, q2, Leo(c), Seq1(r), m, 0) >>)

\* ---- focus "cancel": the first validating append after a reopen is cancelled part-way (C08)
(* CancelAppend(c, mode, recs): the caller's context is cancelled while the append validates.
   The harness makes the call with a context that reports Canceled from its k-th Err() poll on,
   for k = 0, 1, 2, ... until the call is no longer cancelled: this visits every point at which
   the code consults the context, in particular every point between two scanned keys of the
   membership-filter rebuild.  A cancelled call fails and changes nothing (nothing durable, and
   the filter must not be left flagged as loaded while it covers only a prefix of the stored
   keys: fl / fk are as before or completely rebuilt, which no reply can tell apart).  The
   last call of the sweep is an ordinary append; its reply and effect are the step's. *)
CancelAppend(c, mode, recs) ==
  /\ Usable(c)
  /\ mode \in {"strict", "alloc"}
  /\ recs # <<>>
  /\ EnvOK(c, mode, recs)
  /\ Leo(c) + Len(recs) <= MaxSeq
  /\ LET exp  == Leo(c) + 1
         v    == Validate(c, mode, recs, exp)
         E(r) == [a |-> "CancelAppend", c |-> c, mode |-> mode, recs |-> recs, res |-> r]
     IN IF v.err # ""
          THEN /\ ev' = E(AppRes(v.err, 0, 0))
               /\ mem' = [mem EXCEPT ![c].fl = v.fl, ![c].fk = v.fk]
               /\ UNCHANGED durable
          ELSE /\ Stage(c, recs, exp)
               /\ mem' = [mem EXCEPT ![c].fl = v.fl, ![c].fk = v.fk, ![c].leo = exp + Len(recs) - 1]
               /\ ev' = E(AppRes("", exp, Len(recs)))
               /\ UNCHANGED <<ret, ckpt>>
  /\ UNCHANGED <<open, dbOpen, cfg>>
  /\ KeepX

\* the channel of the script: the one whose lease the first step opened
CancelCh  == hist[2].ev.c
KeySeqs(c) == SetToSortSeq({s \in RowSeqs(c) : HasKey(rows[c][s])}, <)
CleanKeyed(c) == {r \in CleanRecs(c) : HasKey(r)}

\* the scripted step n (n = Len(hist)); FALSE where the script has nothing to do in this state
CancelOps(n) ==
  IF n = 1 THEN \E c \in Pick(Chans) : XOpenLease(c)
  ELSE LET c == CancelCh IN
    CASE n \in 2..4 -> \* keyed rows, any mode
           Usable(c) /\ CleanKeyed(c) # {} /\
           \E r \in Pick(CleanKeyed(c)), m \in Pick(Modes) : XAppend(c, m, 0, Seq1(r))
      [] n = 5 -> XCloseDB
      [] n = 6 -> XOpenDB
      [] n = 7 -> XOpenLease(c)
      [] n = 8 -> \* the cancelled append: a keyed record that is not stored
           Usable(c) /\ CleanKeyed(c) # {} /\
           \E r \in Pick(CleanKeyed(c)), m \in Pick({"strict", "alloc"}) : CancelAppend(c, m, Seq1(r))
      [] n \in 9..12 -> \* a duplicate of the (n - 8)-th stored key under a fresh id
           Usable(c) /\ Fresh # {} /\ n - 8 <= Len(KeySeqs(c)) /\
           \E id \in Pick(Fresh), m \in Pick({"strict", "alloc"}), p \in Pick(Pays) :
              LET k == rows[c][KeySeqs(c)[n - 8]]
              IN XAppend(c, m, 0, Seq1([id |-> id, from |-> k.from, no |-> k.no, p |-> p]))
      [] OTHER -> FALSE

\* is the scripted step n possible in this state?  (otherwise an ordinary step is taken)
CancelReady(n) ==
  IF n = 1 THEN TRUE
  ELSE LET c == CancelCh IN
    CASE n \in {2, 3, 4, 8} -> Usable(c) /\ CleanKeyed(c) # {}
      [] n = 5 -> dbOpen
      [] n = 6 -> ~dbOpen
      [] n = 7 -> dbOpen /\ open[c] < MaxOpen
      [] n \in 9..12 -> Usable(c) /\ Fresh # {} /\ n - 8 <= Len(KeySeqs(c))
      [] OTHER -> FALSE

SimStep ==
  \/ Leases /\ KeepX
  \/ Thin(4) /\ Appends /\ KeepX
  \/ Thin(4) /\ Applies /\ KeepX
  \/ Thin(2) /\ Truncs
  \/ Thin(3) /\ Retention /\ KeepX
  \/ Thin(6) /\ Ckpts /\ KeepX
  \/ Compat /\ (Exact \/ RandomElement(1..3) = 1) /\ ExactOps
  \/ Compat /\ (Exact \/ RandomElement(1..4) = 1) /\ BatchOps

\* TLC evaluates the invariant on every candidate successor.  After Depth steps the only
\* successor is a stuttering "end" marker, so each simulated trace prints exactly once.
\* hist keeps snapshots of the variables (cheap) and the projection is computed when the
\* behaviour is printed (TLCEval: evaluate once, eagerly; lazily it is 60x slower).
SimNext ==
  IF Len(hist) <= Depth
    THEN (IF focus = "cancel" /\ Len(hist) <= 12 /\ CancelReady(Len(hist)) THEN CancelOps(Len(hist)) ELSE SimStep)
         /\ hist' = Append(hist, [ev |-> ev', st |-> CurX']) /\ UNCHANGED focus
    ELSE UNCHANGED xvars /\ UNCHANGED focus /\ hist' = Append(hist, [ev |-> [a |-> "End"], st |-> 0])
Emit == Len(hist) = Depth + 2 =>
          PrintT("BEH " \o ToJson([steps |-> [i \in 1..(Depth + 1) |-> TLCEval([ev |-> hist[i].ev, st |-> TLCEval(ProjSX(TLCEval(hist[i].st)))])]]))
===============================================================================

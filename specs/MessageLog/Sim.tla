--------------------------------- MODULE Sim ---------------------------------
(* Behaviour generator: `tlc -simulate` on this module prints one JSON behaviour per
   line ("BEH {...}") when a run reaches Depth steps.  Every step carries the call, the
   reply the specification determines and the projection of the abstract state.

   One successor per action kind (arguments drawn with RandomElement), so that
   `-simulate` chooses uniformly among kinds; "aimed" kinds draw arguments that make the
   call interesting in the current state (a colliding key, an id that is stored, a
   truncation inside the stored rows, a trim inside the log, the reopen of a channel
   whose entry was just reclaimed ...). *)
EXTENDS MessageLog, Json
CONSTANTS Depth,
          Focus   \* "log" (C07: truncation, retention, reopen) or "dup" (C08: collisions, reclaim, reopen)
VARIABLE hist

SimProbeIds   == SetToSortSeq(Ids, <)
SimProbeFroms == << "u1", "u2" >>
SimProbeNos   == << "n1", "n2" >>

SimInit == Init /\ hist = << [ev |-> ev, st |-> Cur] >>

Pick(S) == {RandomElement(S)}
OpenCh  == {c \in Chans : Usable(c)}
ShutCh  == {c \in Chans : dbOpen /\ open[c] = 0}
Fresh   == Ids \ DOMAIN idIdx
Stored(c) == {rows[c][s] : s \in RowSeqs(c)}
Keyed(c)  == {r \in Stored(c) : HasKey(r)}

RandRec   == [id |-> RandomElement(Ids), from |-> RandomElement(Froms), no |-> RandomElement(Nos), p |-> RandomElement(Pays)]
FreshRec  == [id |-> RandomElement(Fresh), from |-> RandomElement(Froms), no |-> RandomElement(Nos), p |-> RandomElement(Pays)]
\* a fresh id whose key is not stored in c either (acceptable to every mode)
CleanRecs(c) == {r \in [id : Fresh, from : Froms, no : Nos, p : Pays] : HasKey(r) => KeyOf(r) \notin DOMAIN idem[c]}
RandBatch  == [i \in 1..RandomElement(1..MaxBatch) |-> RandRec]
FreshBatch == [i \in 1..RandomElement(1..MaxBatch) |-> FreshRec]
Seq1(r)    == << r >>

SimStep ==
  \* ---- leases and database
  \/ \E c \in Pick(Chans) : OpenLease(c)
  \/ ShutCh # {} /\ \E c \in Pick(ShutCh) : OpenLease(c)
  \/ RandomElement(1..(IF Focus = "dup" THEN 2 ELSE 3)) = 1 /\ \E c \in Pick(Chans) : CloseLease(c)
  \/ RandomElement(1..(IF Focus = "dup" THEN 5 ELSE 8)) = 1 /\ CloseDB
  \/ OpenCh # {} /\ RandomElement(1..(IF Focus = "dup" THEN 2 ELSE 4)) = 1 /\ \E c \in Pick(OpenCh) : CloseLease(c)
  \/ OpenDB
  \* ---- appends
  \/ OpenCh # {} /\ \E c \in Pick(OpenCh), m \in Pick(Modes) : DoAppend(c, m, 0, RandBatch)
  \/ OpenCh # {} /\ Fresh # {} /\ \E c \in Pick(OpenCh), m \in Pick(Modes) : DoAppend(c, m, 0, FreshBatch)
  \/ OpenCh # {} /\ \E c \in Pick(OpenCh) : CleanRecs(c) # {} /\
        \E m \in Pick(Modes), r \in Pick(CleanRecs(c)) : DoAppend(c, m, 0, Seq1(r))
  \/ OpenCh # {} /\ \E c \in Pick(OpenCh) : CleanRecs(c) # {} /\
        \E m \in Pick(Modes), r1 \in Pick(CleanRecs(c)), r2 \in Pick(CleanRecs(c)) : DoAppend(c, m, 0, << r1, r2 >>)
  \* colliding (sender, client number): a stored key under a fresh id, alone or behind a clean record
  \/ OpenCh # {} /\ Fresh # {} /\ \E c \in Pick(OpenCh) : Keyed(c) # {} /\
        \E m \in Pick({"strict", "alloc"}), k \in Pick(Keyed(c)), id \in Pick(Fresh), p \in Pick(Pays) :
           DoAppend(c, m, 0, Seq1([id |-> id, from |-> k.from, no |-> k.no, p |-> p]))
  \/ OpenCh # {} /\ Fresh # {} /\ \E c \in Pick(OpenCh) : Keyed(c) # {} /\ CleanRecs(c) # {} /\
        \E m \in Pick({"strict", "alloc"}), k \in Pick(Keyed(c)), id \in Pick(Fresh), r \in Pick(CleanRecs(c)) :
           DoAppend(c, m, 0, << r, [id |-> id, from |-> k.from, no |-> k.no, p |-> r.p] >>)
  \/ Focus = "dup" /\ OpenCh # {} /\ Fresh # {} /\ \E c \in Pick(OpenCh) : Keyed(c) # {} /\
        \E m \in Pick({"strict", "alloc"}), k \in Pick(Keyed(c)), id \in Pick(Fresh), p \in Pick(Pays) :
           DoAppend(c, m, 0, Seq1([id |-> id, from |-> k.from, no |-> k.no, p |-> p]))
  \/ Focus = "dup" /\ OpenCh # {} /\ Fresh # {} /\ \E c \in Pick(OpenCh) : Keyed(c) # {} /\
        \E k \in Pick(Keyed(c)), id \in Pick(Fresh), p \in Pick(Pays) :
           DoApply(c, "strict", 0, Seq1([id |-> id, from |-> k.from, no |-> k.no, p |-> p]), 0)
  \* a keyed record arriving by a trusted apply / append (the filter must learn it)
  \/ Focus = "dup" /\ OpenCh # {} /\ \E c \in Pick(OpenCh) :
        LET K == {r \in CleanRecs(c) : HasKey(r)} IN K # {} /\
        \E r \in Pick(K), viaApply \in Pick({TRUE, FALSE}) :
           IF viaApply THEN DoApply(c, "trusted", 0, Seq1(r), 0) ELSE DoAppend(c, "trusted", 0, Seq1(r))
  \* the empty payload (variant 9): rare, it is a reported finding on the typed surface
  \/ RandomElement(1..30) = 1 /\ OpenCh # {} /\ \E c \in Pick(OpenCh) : CleanRecs(c) # {} /\
        \E m \in Pick(Modes), r \in Pick(CleanRecs(c)) : DoAppend(c, m, 0, Seq1([r EXCEPT !.p = 9]))
  \* colliding id (strict mode), possibly stored in the other channel
  \/ OpenCh # {} /\ DOMAIN idIdx # {} /\ \E c \in Pick(OpenCh), id \in Pick(DOMAIN idIdx) :
        DoAppend(c, "strict", 0, Seq1([id |-> id, from |-> RandomElement(Froms), no |-> RandomElement(Nos), p |-> RandomElement(Pays)]))
  \* duplicates inside the batch, every mode
  \/ OpenCh # {} /\ \E c \in Pick(OpenCh) : CleanRecs(c) # {} /\
        \E m \in Pick(Modes), r \in Pick(CleanRecs(c)), id \in Pick(Fresh) :
           DoAppend(c, m, 0, << r, [r EXCEPT !.id = id] >>)
  \/ OpenCh # {} /\ \E c \in Pick(OpenCh) : LET K == {r \in CleanRecs(c) : HasKey(r)} IN K # {} /\ Cardinality(Fresh) >= 3 /\
        \E m \in Pick(Modes), r0 \in Pick(CleanRecs(c)), r \in Pick(K) :
           \E id1 \in Pick(Fresh \ {r0.id}) : \E id2 \in Pick(Fresh \ {r0.id, id1}) :
             (~HasKey(r0) \/ KeyOf(r0) # KeyOf(r)) /\
             DoAppend(c, m, 0, << r0, [r EXCEPT !.id = id1], [r EXCEPT !.id = id2] >>)
  \* pinned base (typed): right and wrong
  \/ OpenCh # {} /\ \E c \in Pick(OpenCh) : CleanRecs(c) # {} /\
        \E r \in Pick(CleanRecs(c)), b \in Pick({0, 1, 1, 2}) : DoAppend(c, "strict", Leo(c) + b, Seq1(r))
  \/ OpenCh # {} /\ \E c \in Pick(OpenCh) : DoAppend(c, "strict", 0, << >>)
  \* ---- follower applies
  \/ OpenCh # {} /\ \E c \in Pick(OpenCh) : CleanRecs(c) # {} /\
        \E m \in Pick({"strict", "trusted"}), r \in Pick(CleanRecs(c)), hw \in Pick({0, 0, Leo(c), Leo(c) + 1, Leo(c) + 2}) :
           DoApply(c, m, 0, Seq1(r), hw)
  \/ OpenCh # {} /\ \E c \in Pick(OpenCh) : CleanRecs(c) # {} /\
        \E r1 \in Pick(CleanRecs(c)), r2 \in Pick(CleanRecs(c)), b \in Pick({0, 1, 1, 1, 2}), hw \in Pick({0, 0, Leo(c) + 1, Leo(c) + 2, Leo(c) + 3}) :
           DoApply(c, "trusted", IF b = 0 THEN 0 ELSE Leo(c) + b, << r1, r2 >>, hw)
  \/ OpenCh # {} /\ Fresh # {} /\ \E c \in Pick(OpenCh) : \E m \in Pick({"strict", "trusted"}) :
        DoApply(c, m, 0, FreshBatch, 0)
  \/ OpenCh # {} /\ \E c \in Pick(OpenCh) : \E hw \in Pick({1, Leo(c), Leo(c) + 1}) : DoApply(c, "trusted", 0, << >>, hw)
  \* ---- truncation
  \/ OpenCh # {} /\ \E c \in Pick(OpenCh) : \E to \in Pick(0..(Leo(c) + 1)) : Truncate(c, to)
  \/ OpenCh # {} /\ \E c \in Pick(OpenCh) : RowSeqs(c) # {} /\ \E s \in Pick(RowSeqs(c)) : Truncate(c, s - 1)
  \/ OpenCh # {} /\ \E c \in Pick(OpenCh) : Leo(c) > 0 /\ Truncate(c, Leo(c) - 1)
  \* ---- retention
  \/ OpenCh # {} /\ \E c \in Pick(OpenCh) : \E t \in Pick(0..MinOf(MaxSeq, Leo(c) + 2)) : Adopt(c, t)
  \/ OpenCh # {} /\ \E c \in Pick(OpenCh) : Leo(c) > 0 /\ \E t \in Pick(1..Leo(c)) : Adopt(c, t)
  \/ OpenCh # {} /\ \E c \in Pick(OpenCh) : \E t \in Pick(0..MinOf(MaxSeq, Leo(c) + 2)), lim \in Pick({0, 1, 2}) : Trim(c, t, lim)
  \/ OpenCh # {} /\ \E c \in Pick(OpenCh) : Leo(c) > 0 /\ \E t \in Pick(1..Leo(c)), lim \in Pick({0, 1, 2}) : Trim(c, t, lim)
  \/ OpenCh # {} /\ \E c \in Pick(OpenCh) : ret[c].has /\ \E lim \in Pick({0, 1}) : Trim(c, ret[c].local, lim)
  \* ---- checkpoints
  \/ OpenCh # {} /\ \E c \in Pick(OpenCh), hw \in Pick(HWs) : Ckpt(c, hw)
  \/ OpenCh # {} /\ \E c \in Pick(OpenCh) : \E hw \in Pick({1, Leo(c), Leo(c) + 1} \cup HWs) : CkptMono(c, hw)

\* TLC evaluates the invariant on every candidate successor.  After Depth steps the only
\* successor is a stuttering "end" marker, so each simulated trace prints exactly once.
\* hist keeps snapshots of the variables (cheap) and the projection is computed when the
\* behaviour is printed (TLCEval: evaluate once, eagerly; lazily it is 60x slower).
SimNext ==
  IF Len(hist) <= Depth
    THEN SimStep /\ hist' = Append(hist, [ev |-> ev', st |-> Cur'])
    ELSE UNCHANGED vars /\ hist' = Append(hist, [ev |-> [a |-> "End"], st |-> 0])
Emit == Len(hist) = Depth + 2 =>
          PrintT("BEH " \o ToJson([steps |-> [i \in 1..(Depth + 1) |-> TLCEval([ev |-> hist[i].ev, st |-> TLCEval(ProjS(TLCEval(hist[i].st)))])]]))
===============================================================================

\* the exact-proposal path: one channel, compat surface, two commands, suffix replacement with at most one proposal:
\* 18,228 distinct / 535,696 generated states, depth 12, ~25 s with 8 idle workers
SPECIFICATION SpecX
CONSTANTS
  Chans = {"c1"}
  Ids = {1, 2, 3}
  Froms = {"u1"}
  Nos = {""}
  Pays = {0}
  Surfaces = {"compat"}
  MaxSeq = 3
  MaxBatch = 1
  MaxOpen = 1
  HWs = {2}
  ProbeIds <- MCProbeIds
  ProbeFroms <- MCProbeFroms
  ProbeNos <- MCProbeNos
  KeepRmaxVariant = FALSE
  Pids = {1, 2}
  MaxRepl = 1
  ProbePids <- MCProbePids
VIEW ViewX
INVARIANTS TypeOK C07_Contiguous C07_CachedLogEnd C07_IndexSound C08_KeyUnique C08_IdOnce C08_FilterCovers TypeOKX C07_ExactSound
PROPERTIES C07_AppendAtEnd C07_ReopenNeutral C08_DuplicateRejected C07_ExactAtEnd C07_ReplaceKeeps C07_ReopenNeutralX C08_DuplicateRejectedX
CHECK_DEADLOCK FALSE

---------------------------------- MODULE MC4 ----------------------------------
(* Exhaustive model checking of the multi-item StoreAppendBatch call (MessageLogX.ExBatch),
   interleaved with every single-call action of MessageLogX:
     pairs    two exact items of one record each in one call, every command, base, record and
              mode, same channel or two channels, the second item with or without a committed
              value;
     triples  a first item at the log end, a second one at the log end or chained behind it,
              and a third one that replays the first or the second, or sits behind the
              second one's place (same channel).
   Probe lists as in MC.tla. *)
EXTENDS MessageLogX
MCProbeIds   == << 1, 2, 3 >>
MCProbeFroms == << "u1" >>
MCProbeNos   == << "n1" >>
MCProbePids  == << 1, 2 >>

\* the records of the quick configuration (Recs <- MCRecs4): a pair with one key and two ids, a pair with one
\* id and two keys, a pair that shares nothing
MCRecs4 == {[id |-> 1, from |-> "u1", no |-> "n1", p |-> 0], [id |-> 2, from |-> "u1", no |-> "n1", p |-> 0],
            [id |-> 2, from |-> "u1", no |-> "n2", p |-> 0]}

I1(c, p, b, r, m, hw) == BItem(c, p, b, << r >>, m, hw)

NExBatch2 ==
  \E c1 \in Chans, c2 \in Chans, m1 \in {"strict", "alloc"}, m2 \in {"strict", "alloc"}, p1 \in Pids, p2 \in Pids,
     r1 \in Recs, r2 \in Recs, b1 \in 0..MaxSeq, b2 \in 0..MaxSeq, hw2 \in {0} \cup HWs :
       /\ (c1 = c2 => m1 = m2)
       /\ ExBatch(<< I1(c1, p1, b1, r1, m1, 0), I1(c2, p2, b2, r2, m2, hw2) >>)

NExBatch3 ==
  \E c \in Chans, m \in {"strict", "alloc"}, p1 \in Pids, p2 \in Pids, r1 \in Recs, r2 \in Recs, d2 \in {0, 1} :
     LET i1 == I1(c, p1, Leo(c), r1, m, 0)
         i2 == I1(c, p2, Leo(c) + d2, r2, m, 0)
     IN \/ ExBatch(<< i1, i2, i1 >>)
        \/ ExBatch(<< i1, i2, i2 >>)
        \/ \E p3 \in Pids, r3 \in Recs : ExBatch(<< i1, i2, I1(c, p3, Leo(c) + 1 + d2, r3, m, 0) >>)

Next4 ==
  \/ NAppend \/ NAppendAt \/ NApply \/ NApplyAt \/ NTruncate \/ NAdopt \/ NTrim \/ NCkpt \/ NCkptMono
  \/ NOpenLease \/ NCloseLease \/ XCloseDB \/ XOpenDB
  \/ NExAppend \/ NReplace
  \/ NExBatch2 \/ NExBatch3

Spec4 == InitX /\ [][Next4]_xvars
===============================================================================

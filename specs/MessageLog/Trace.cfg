SPECIFICATION TraceSpec
CONSTANTS
  Chans = {"c1", "c2"}
  Ids = {1}
  Froms = {""}
  Nos = {""}
  Pays = {0}
  Surfaces = {"typed", "compat"}
  MaxSeq = 100000000
  MaxBatch = 1
  MaxOpen = 3
  HWs = {1}
  ProbeIds <- TraceProbeIds
  ProbeFroms <- TraceProbeFroms
  ProbeNos <- TraceProbeNos
  KeepRmaxVariant = FALSE
  Pids = {1}
  ProbePids <- TraceProbePids
  MaxRepl = 0
CONSTRAINT Track
INVARIANTS Conform TypeOK C07_Contiguous C07_CachedLogEnd C07_IndexSound C08_KeyUnique C08_IdOnce C08_FilterCovers TypeOKX C07_ExactSound
PROPERTIES C07_AppendAtEnd C07_ReopenNeutral C08_DuplicateRejected C07_ExactAtEnd C07_ReplaceKeeps C07_ReopenNeutralX C08_DuplicateRejectedX
POSTCONDITION Accepted
CHECK_DEADLOCK FALSE

\* two channels: 182,298 distinct / 4,136,702 generated states, depth 13, ~1.5 min with 8 idle workers
SPECIFICATION SpecX
CONSTANTS
  Chans = {"c1", "c2"}
  Ids = {1, 2, 3}
  Froms = {"u1"}
  Nos = {"", "n1"}
  Pays = {0}
  Surfaces = {"typed", "compat"}
  MaxSeq = 2
  MaxBatch = 2
  MaxOpen = 1
  HWs = {}
  ProbeIds <- MCProbeIds
  ProbeFroms <- MCProbeFroms
  ProbeNos <- MCProbeNos
  KeepRmaxVariant = FALSE
  Pids = {}
  MaxRepl = 0
  ProbePids <- MCProbePids
VIEW ViewX
INVARIANTS TypeOK C07_Contiguous C07_CachedLogEnd C07_IndexSound C08_KeyUnique C08_IdOnce C08_FilterCovers TypeOKX C07_ExactSound
PROPERTIES C07_AppendAtEnd C07_ReopenNeutral C08_DuplicateRejected C07_ExactAtEnd C07_ReplaceKeeps C07_ReopenNeutralX C08_DuplicateRejectedX
CHECK_DEADLOCK FALSE

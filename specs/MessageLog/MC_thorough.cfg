\* one channel: 263,292 distinct / 5,294,724 generated states, depth 11, ~2 min with 8 idle workers
\* (MaxOpen = 2: 351,056 distinct / 10,370,036 generated; every action taken, checked once with -coverage 1)
SPECIFICATION SpecX
CONSTANTS
  Chans = {"c1"}
  Ids = {1, 2, 3}
  Froms = {"", "u1"}
  Nos = {"", "n1"}
  Pays = {0}
  Surfaces = {"typed", "compat"}
  MaxSeq = 4
  MaxBatch = 2
  MaxOpen = 1
  HWs = {2}
  ProbeIds <- MCProbeIds
  ProbeFroms <- MCProbeFroms
  ProbeNos <- MCProbeNos
  KeepRmaxVariant = FALSE
  Pids = {}
  MaxRepl = 0
  ProbePids <- MCProbePids
VIEW ViewX
INVARIANTS TypeOK C07_Contiguous C07_CachedLogEnd C07_IndexSound C08_KeyUnique C08_IdOnce C08_FilterCovers TypeOKX C07_ExactSound
PROPERTIES C07_AppendAtEnd C07_ReopenNeutral C08_DuplicateRejected C07_ExactAtEnd C07_ReplaceKeeps C07_ReopenNeutralX C08_DuplicateRejectedX
CHECK_DEADLOCK FALSE

\* multi-item StoreAppendBatch calls: TWO channels with one row each (items of both channels in one call),
\* one command per channel, colliding keys and ids:
\* 31,482 distinct / 1,235,449 generated states, depth 17, ~7 min with 3 workers on a loaded machine (load 50)
SPECIFICATION Spec4
CONSTANTS
  Chans = {"c1", "c2"}
  Ids = {1, 2}
  Froms = {"u1"}
  Nos = {"n1"}
  Pays = {0}
  Surfaces = {"compat"}
  MaxSeq = 1
  MaxBatch = 1
  MaxOpen = 1
  HWs = {1}
  ProbeIds <- MCProbeIds
  ProbeFroms <- MCProbeFroms
  ProbeNos <- MCProbeNos
  KeepRmaxVariant = FALSE
  Pids = {1}
  MaxRepl = 0
  ProbePids <- MCProbePids
VIEW ViewX
INVARIANTS TypeOK C07_Contiguous C07_CachedLogEnd C07_IndexSound C08_KeyUnique C08_IdOnce C08_FilterCovers TypeOKX C07_ExactSound
PROPERTIES C07_AppendAtEnd C07_ReopenNeutral C08_DuplicateRejected C07_ExactAtEnd C07_ReplaceKeeps C07_ReopenNeutralX C08_DuplicateRejectedX C07_BatchOfOneIsExAppend C07_BatchAtEnd C08_BatchDuplicateRejected
CHECK_DEADLOCK FALSE

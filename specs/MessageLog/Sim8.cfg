INIT SimInit
NEXT SimNext
CONSTANTS
  Chans = {"c1", "c2"}
  Ids = {1, 2, 3, 4, 5, 6, 7}
  Froms = {"", "u1", "u2"}
  Nos = {"", "n1", "n2"}
  Pays = {0, 1}
  Surfaces = {"typed", "compat"}
  MaxSeq = 14
  MaxBatch = 3
  MaxOpen = 2
  HWs = {1, 2, 4, 7}
  ProbeIds <- SimProbeIds
  ProbeFroms <- SimProbeFroms
  ProbeNos <- SimProbeNos
  KeepRmaxVariant = FALSE
  Pids = {1, 2, 3, 4, 5, 6}
  ProbePids <- SimProbePids
  MaxRepl = 0
  Depth = 30
  Focus = "dup"
INVARIANT Emit
CHECK_DEADLOCK FALSE

\* two channels, keyed records only: 12,402 distinct / 241,574 generated states, ~10 s with 8 idle workers
SPECIFICATION Spec
CONSTANTS
  Chans = {"c1", "c2"}
  Ids = {1, 2}
  Froms = {"u1"}
  Nos = {"n1"}
  Pays = {0}
  Surfaces = {"typed", "compat"}
  MaxSeq = 2
  MaxBatch = 1
  MaxOpen = 1
  HWs = {}
  ProbeIds <- MCProbeIds
  ProbeFroms <- MCProbeFroms
  ProbeNos <- MCProbeNos
  KeepRmaxVariant = FALSE
VIEW View
INVARIANTS TypeOK C07_Contiguous C07_CachedLogEnd C07_IndexSound C08_KeyUnique C08_IdOnce C08_FilterCovers
PROPERTIES C07_AppendAtEnd C07_ReopenNeutral C08_DuplicateRejected
CHECK_DEADLOCK FALSE

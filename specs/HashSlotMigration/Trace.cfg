SPECIFICATION TraceSpec
CONSTANTS
  Kinds = {"W", "F", "O"}
  Lose = {FALSE, TRUE}
  MaxSrc = 40
  MaxCopies = 1000000
  MaxSends = 1000000
  MaxTgtW = 1000000
  MaxDeliver = 3
CONSTRAINT Track
INVARIANTS Conform C39_AtMostOnce C39_NoLossAfterSwitch C39_FenceClosesSource
PROPERTIES C39_ReplayNoop C39_AnsweredMeansRecorded C39_NonOwnerRefuses
POSTCONDITION Accepted
CHECK_DEADLOCK FALSE

-------------------------------- MODULE Trace --------------------------------
(* Trace validation: the NDJSON file written by the harness' seeded orchestrator/channel
   driver (one step per line, traces concatenated, each starting with an "Init" line) must be
   a behaviour of HashSlotMigration.  Arguments are bound from the log; replies and the
   projection (outbox rows, fence index, applied-delta records, order of first application)
   are determined by the specification and compared in Conform. *)
EXTENDS HashSlotMigration, Json, TLC
VARIABLE l

Log == ndJsonDeserialize("trace.ndjson")

TraceInit == Init /\ l = 1

Reset0 ==
  /\ phase' = "snapshot" /\ sidx' = 0 /\ srcAcc' = {} /\ snapIdx' = 0 /\ outbox' = {} /\ lastOut' = 0
  /\ fence' = 0 /\ hasState' = FALSE
  /\ chan' = [i \in Idx |-> 0] /\ sends' = [i \in Idx |-> 0]
  /\ tDelta' = {} /\ tApplied' = <<>> /\ tw' = 0 /\ ownS' = TRUE /\ ownT' = FALSE /\ bare' = FALSE
  /\ ev' = [a |-> "Init"]

SeqRange(s) == {s[j] : j \in 1..Len(s)}

Step(e) ==
  CASE e.a = "Init"       -> Reset0
    [] e.a = "SrcApply"   -> SrcApply(e.ks, e.lose)
    [] e.a = "StartDelta" -> StartDelta
    [] e.a = "Deliver"    -> Deliver(e.ms, e.mate)
    [] e.a = "Dup"        -> Dup(e.i)
    [] e.a = "Drop"       -> Drop(e.i)
    [] e.a = "Retry"      -> Retry(SeqRange(e.sent))
    [] e.a = "Ack"        -> Ack(e.i)
    [] e.a = "Switch"     -> Switch
    [] e.a = "TgtWrite"   -> TgtWrite
    [] e.a = "Cleanup"    -> Cleanup
    [] e.a = "Restart"    -> Restart(e.who)
    [] e.a = "RestartBare" -> RestartBare
    [] e.a = "Resupply"   -> Resupply

TraceNext == l <= Len(Log) /\ l' = l + 1 /\ Step(Log[l].ev)

TraceSpec == TraceInit /\ [][TraceNext]_<<vars, l>>

Conform ==
  l > 1 /\ Log[l - 1].ev.a # "Init" =>
    /\ ev.res = Log[l - 1].ev.res
    /\ Proj = Log[l - 1].st

HW       == TLCSet(1, IF l > TLCGet(1) THEN l ELSE TLCGet(1))
Track    == HW
Accepted == TLCGet(1) = Len(Log) + 1
ASSUME TLCSet(1, 0)
===============================================================================

INIT SimInit
NEXT SimNext
CONSTANTS
  Kinds = {"W", "F", "O"}
  Lose = {FALSE, TRUE}
  MaxSrc = 40
  MaxCopies = 3
  MaxSends = 4
  MaxTgtW = 6
  MaxDeliver = 3
  Depth = 22
INVARIANT Emit
CHECK_DEADLOCK FALSE

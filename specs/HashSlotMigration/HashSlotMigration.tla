-------------------------- MODULE HashSlotMigration --------------------------
(* Migration of one hash slot H from a source slot to a target slot, as the two slot
   state machines (pkg/slot/fsm/statemachine.go over pkg/db/meta) see it.  The
   orchestrator that drives the phases is not part of the repository; here it is the
   environment and follows the protocol the state machines are written for:

     snapshot   source owns H.  StartDelta: UpdateOutgoingDeltaTargets({H -> target}) on
                the source, export of H (ExportHashSlotSnapshot) and ImportHashSlotSnapshot
                on the target, in one step (no source write in between).
     delta      every accepted source write for H is stored in the durable outbox (by
                source log index) and handed to the delta forwarder.  The forwarder is a
                channel that may lose, duplicate and reorder; the orchestrator re-sends
                from the outbox (Retry) and acknowledges applied deltas (Ack).
     switching  EnterFence is applied on the source: the fence is durable, later ordinary
                writes for H are answered "hash_slot_fenced" and change nothing; the fence
                itself travels as a delta.
     done       Switch (only when the fence and every outbox row reached the target):
                UpdateOwnedHashSlots on both machines; the target serves H.

   A target batch may also carry one command of the target's own traffic next to the deltas
   (Deliver's `mate`): one that turns out stale when the batch commits, or one that makes the
   state machine refuse the batch.

   One action per ApplyBatch / call on a state machine.  A write is identified by its
   source log index; `tApplied` is the order in which the target first applied writes
   (the harness replays exactly that order on an oracle state machine and compares
   the hash slot's metadata bytes).                                               *)
EXTENDS Integers, Sequences, FiniteSets, SequencesExt

CONSTANTS
  Kinds,      \* source command kinds tried: "W" write for H, "F" EnterFence(H), "O" write for another owned hash slot
  Lose,       \* forwarder outcomes tried: subset of BOOLEAN (TRUE = the forwarder loses the batch's deltas)
  MaxSrc,     \* bound on source log index
  MaxCopies,  \* copies of one delta that may be in flight at once
  MaxSends,   \* how often one delta may be put on the channel in total (forward + retries + dups)
  MaxTgtW,    \* direct writes on the target
  MaxDeliver  \* deltas per target apply batch tried by Next (1..3)

VARIABLES
  phase,      \* orchestrator phase: "snapshot" | "delta" | "switching" | "done"
  sidx,       \* source log index (last used)
  srcAcc,     \* source indexes of writes for H the source accepted (took effect)
  snapIdx,    \* source index at which the snapshot was taken
  outbox,     \* source indexes with a durable outbox row
  lastOut,    \* migration state: highest index put in the outbox
  fence,      \* durable fence index (0 = none)
  hasState,   \* a migration state row exists on the source
  chan,       \* channel: [1..MaxSrc -> copies in flight]
  sends,      \* [1..MaxSrc -> times put on the channel]
  tDelta,     \* target: source indexes recorded as applied deltas
  tApplied,   \* target: writes in order of first application (deltas and direct writes)
  tw,         \* direct target writes issued
  ownS, ownT, \* does the source / target own H
  bare,       \* the source was restarted and has not been given its delta target / forwarder again
  ev

vars == <<phase, sidx, srcAcc, snapIdx, outbox, lastOut, fence, hasState, chan, sends, tDelta, tApplied, tw, ownS, ownT, bare, ev>>

Idx == 1..MaxSrc
SortedSeq(S) == SetToSortSeq(S, <)
Max2(a, b) == IF a > b THEN a ELSE b

Init ==
  /\ phase = "snapshot" /\ sidx = 0 /\ srcAcc = {} /\ snapIdx = 0 /\ outbox = {} /\ lastOut = 0
  /\ fence = 0 /\ hasState = FALSE
  /\ chan = [i \in Idx |-> 0] /\ sends = [i \in Idx |-> 0]
  /\ tDelta = {} /\ tApplied = <<>> /\ tw = 0 /\ ownS = TRUE /\ ownT = FALSE /\ bare = FALSE
  /\ ev = [a |-> "Init"]

Migrating == phase \in {"delta", "switching"} /\ ~bare   \* the source has a runtime delta target for H

-------------------------------------------------------------------------------
\* One source command on top of a running record r of the batch.
\*   r.acc, r.out, r.lastOut, r.fence, r.hasState: state after the earlier commands of the batch
\*   r.res: replies so far, r.fwd: indexes handed to the forwarder after the commit
\*   r.err: the batch is refused as a whole
SrcOne(r, k, i) ==
  IF r.err THEN r
  ELSE IF k = "O" THEN [r EXCEPT !.res = Append(@, "ok")]
  ELSE IF k = "W" THEN
    IF ~ownS THEN [r EXCEPT !.err = TRUE]                                   \* not the owner: refused
    ELSE IF r.fence # 0 THEN [r EXCEPT !.res = Append(@, "fenced")]           \* durable fence: no effect
    ELSE IF Migrating
      THEN [r EXCEPT !.acc = @ \cup {i}, !.out = @ \cup {i}, !.lastOut = Max2(@, i), !.hasState = TRUE,
                     !.res = Append(@, "ok"), !.fwd = Append(@, i)]
      ELSE [r EXCEPT !.acc = @ \cup {i}, !.res = Append(@, "ok")]
  ELSE \* "F": EnterFence(H) without an explicit target needs the runtime delta target
    IF ~Migrating THEN [r EXCEPT !.err = TRUE]
    ELSE IF r.fence # 0 THEN [r EXCEPT !.res = Append(@, "ok")]               \* already fenced: no-op
    ELSE [r EXCEPT !.fence = i, !.out = @ \cup {i}, !.lastOut = Max2(@, i), !.hasState = TRUE,
                   !.res = Append(@, "ok"), !.fwd = Append(@, i)]

SrcFold(ks) ==
  LET r0 == [acc |-> srcAcc, out |-> outbox, lastOut |-> lastOut, fence |-> fence, hasState |-> hasState,
             res |-> <<>>, fwd |-> <<>>, err |-> FALSE]
      r1 == SrcOne(r0, ks[1], sidx + 1)
  IN IF Len(ks) = 1 THEN r1 ELSE SrcOne(r1, ks[2], sidx + 2)

\* ApplyBatch on the source with commands of kinds ks (1 or 2).  `lose`: the forwarder
\* loses everything this batch hands to it.
SrcApply(ks, lose) ==
  /\ Len(ks) \in 1..2
  /\ sidx + Len(ks) <= MaxSrc
  /\ LET r == SrcFold(ks) IN
       IF r.err
         THEN /\ ev' = [a |-> "SrcApply", ks |-> ks, lose |-> lose, res |-> [err |-> TRUE, results |-> <<>>, fwd |-> <<>>]]
              /\ UNCHANGED <<srcAcc, outbox, lastOut, fence, hasState, chan, sends, phase>>
         ELSE /\ srcAcc' = r.acc /\ outbox' = r.out /\ lastOut' = r.lastOut /\ fence' = r.fence /\ hasState' = r.hasState
              /\ phase' = IF r.fence # 0 /\ phase = "delta" THEN "switching" ELSE phase
              /\ LET F == {r.fwd[j] : j \in 1..Len(r.fwd)} IN
                   /\ chan'  = [i \in Idx |-> IF i \in F /\ ~lose THEN chan[i] + 1 ELSE chan[i]]
                   /\ sends' = [i \in Idx |-> IF i \in F /\ ~lose THEN sends[i] + 1 ELSE sends[i]]
              /\ ev' = [a |-> "SrcApply", ks |-> ks, lose |-> lose, res |-> [err |-> FALSE, results |-> r.res, fwd |-> r.fwd]]
  /\ sidx' = sidx + Len(ks)      \* refused entries keep their log index
  /\ UNCHANGED <<snapIdx, tDelta, tApplied, tw, ownS, ownT, bare>>

\* Orchestrator: start the delta phase (delta target, snapshot export, import on the target).
StartDelta ==
  /\ phase = "snapshot"
  /\ phase' = "delta"
  /\ snapIdx' = sidx
  /\ ev' = [a |-> "StartDelta", res |-> [err |-> FALSE]]
  /\ UNCHANGED <<sidx, srcAcc, outbox, lastOut, fence, hasState, chan, sends, tDelta, tApplied, tw, ownS, ownT, bare>>

\* One delta on top of a running record of the target batch.
TgtOne(r, i) ==
  IF i \in r.delta THEN r                                                     \* replayed delta: no-op
  ELSE [delta |-> r.delta \cup {i}, app |-> IF i \in srcAcc THEN Append(r.app, i) ELSE r.app]

RECURSIVE TgtFold(_, _, _)
TgtFold(r, ms, j) == IF j > Len(ms) THEN r ELSE TgtFold(TgtOne(r, ms[j]), ms, j + 1)

Copies(ms, i) == Cardinality({q \in 1..Len(ms) : ms[q] = i})

\* ApplyBatch on the target with the deltas ms (1 to 3 source indexes, possibly equal),
\* each taken from the channel, and possibly one co-batched command of the target's own
\* traffic (raft hands several committed entries to one ApplyBatch), the "mate":
\*   "none"     no mate.
\*   "stale"    a conditional command whose observation turns out stale when the write batch
\*              commits (retention advance / guarded migration-task command on a row that is
\*              not there).  The commit of the whole batch fails; the state machine falls
\*              back to applying the batch command by command.  What the property asks of
\*              that: the mate is a no-op answered "stale_meta", every delta of the batch is
\*              applied exactly as if it had been delivered alone (once, with its durable
\*              applied record), so that a redelivery is skipped and the source may ack.
\*   "refused"  a command for a hash slot the target does not own: ApplyBatch refuses the
\*              batch as a whole, nothing of it takes effect, the copies taken from the
\*              channel are gone; the deltas count as NOT applied (no record, no ack) and
\*              are applied by a later delivery.
Mates == {"none", "stale", "refused"}

Deliver(ms, mate) ==
  /\ Len(ms) \in 1..3
  /\ mate \in Mates
  /\ \A j \in 1..Len(ms) : chan[ms[j]] >= Copies(ms, ms[j])
  /\ LET r == IF mate = "refused" THEN [delta |-> tDelta, app |-> tApplied]
                                  ELSE TgtFold([delta |-> tDelta, app |-> tApplied], ms, 1)
     IN /\ tDelta' = r.delta
        /\ tApplied' = r.app
  /\ chan' = [i \in Idx |-> chan[i] - Copies(ms, i)]
  /\ ev' = [a |-> "Deliver", ms |-> ms, mate |-> mate,
            res |-> [err |-> (mate = "refused"), mate |-> IF mate = "stale" THEN "stale" ELSE "none"]]
  /\ UNCHANGED <<phase, sidx, srcAcc, snapIdx, outbox, lastOut, fence, hasState, sends, tw, ownS, ownT, bare>>

TgtApplyWithStaleMate(ms) == Deliver(ms, "stale")
TgtApplyRefused(ms)       == Deliver(ms, "refused")

\* Channel faults.
Dup(i) ==
  /\ chan[i] >= 1 /\ chan[i] < MaxCopies /\ sends[i] < MaxSends
  /\ chan' = [chan EXCEPT ![i] = @ + 1]
  /\ sends' = [sends EXCEPT ![i] = @ + 1]
  /\ ev' = [a |-> "Dup", i |-> i, res |-> [err |-> FALSE]]
  /\ UNCHANGED <<phase, sidx, srcAcc, snapIdx, outbox, lastOut, fence, hasState, tDelta, tApplied, tw, ownS, ownT, bare>>

Drop(i) ==
  /\ chan[i] >= 1
  /\ chan' = [chan EXCEPT ![i] = @ - 1]
  /\ ev' = [a |-> "Drop", i |-> i, res |-> [err |-> FALSE]]
  /\ UNCHANGED <<phase, sidx, srcAcc, snapIdx, outbox, lastOut, fence, hasState, sends, tDelta, tApplied, tw, ownS, ownT, bare>>

\* Orchestrator: read the durable outbox (ListHashSlotMigrationOutbox) and re-send the rows Snt.
Retry(Snt) ==
  /\ Snt # {} /\ Snt \subseteq outbox
  /\ \A i \in Snt : chan[i] < MaxCopies /\ sends[i] < MaxSends
  /\ chan'  = [i \in Idx |-> IF i \in Snt THEN chan[i] + 1 ELSE chan[i]]
  /\ sends' = [i \in Idx |-> IF i \in Snt THEN sends[i] + 1 ELSE sends[i]]
  /\ ev' = [a |-> "Retry", sent |-> SortedSeq(Snt), res |-> [err |-> FALSE, rows |-> SortedSeq(outbox)]]
  /\ UNCHANGED <<phase, sidx, srcAcc, snapIdx, outbox, lastOut, fence, hasState, tDelta, tApplied, tw, ownS, ownT, bare>>

\* Orchestrator: acknowledge a delta the target has applied (replicated ack command on the source).
Ack(i) ==
  /\ i \in tDelta
  /\ i \in outbox
  /\ sidx + 1 <= MaxSrc
  /\ sidx' = sidx + 1
  /\ outbox' = IF hasState /\ i <= lastOut THEN outbox \ {i} ELSE outbox
  /\ ev' = [a |-> "Ack", i |-> i, res |-> [err |-> FALSE]]
  /\ UNCHANGED <<phase, srcAcc, snapIdx, lastOut, fence, hasState, chan, sends, tDelta, tApplied, tw, ownS, ownT, bare>>

\* Orchestrator: hand H over once the fence and every outbox row reached the target.
Switch ==
  /\ phase = "switching" /\ ~bare
  /\ fence \in tDelta
  /\ outbox \subseteq tDelta
  /\ phase' = "done" /\ ownS' = FALSE /\ ownT' = TRUE
  /\ ev' = [a |-> "Switch", res |-> [err |-> FALSE]]
  /\ UNCHANGED <<sidx, srcAcc, snapIdx, outbox, lastOut, fence, hasState, chan, sends, tDelta, tApplied, tw, bare>>

\* An ordinary write for H sent to the target.  Identified as 1000 + n (MaxSrc < 1000).
TgtWrite ==
  /\ tw < MaxTgtW
  /\ tw' = tw + 1
  /\ IF ownT
       THEN /\ tApplied' = Append(tApplied, 1000 + tw + 1)
            /\ ev' = [a |-> "TgtWrite", n |-> tw + 1, res |-> [err |-> FALSE]]
       ELSE /\ tApplied' = tApplied
            /\ ev' = [a |-> "TgtWrite", n |-> tw + 1, res |-> [err |-> TRUE]]
  /\ UNCHANGED <<phase, sidx, srcAcc, snapIdx, outbox, lastOut, fence, hasState, chan, sends, tDelta, ownS, ownT, bare>>

\* Orchestrator: delete the source's migration state and outbox after the hand-over.
Cleanup ==
  /\ phase = "done" /\ hasState
  /\ sidx + 1 <= MaxSrc
  /\ sidx' = sidx + 1
  /\ outbox' = {} /\ hasState' = FALSE /\ fence' = 0 /\ lastOut' = 0
  /\ ev' = [a |-> "Cleanup", res |-> [err |-> FALSE]]
  /\ UNCHANGED <<phase, srcAcc, snapIdx, chan, sends, tDelta, tApplied, tw, ownS, ownT, bare>>

\* Process restart of one machine: a new state machine object over the same database; the
\* orchestrator supplies the runtime tables (ownership, delta target, forwarder) again.
Restart(who) ==
  /\ ~bare
  /\ ev' = [a |-> "Restart", who |-> who, res |-> [err |-> FALSE]]
  /\ UNCHANGED <<phase, sidx, srcAcc, snapIdx, outbox, lastOut, fence, hasState, chan, sends, tDelta, tApplied, tw, ownS, ownT, bare>>

\* Restart of the source after the fence, with the delta target and forwarder supplied only
\* later (Resupply): in between the durable fence alone must keep writes for H out.
RestartBare ==
  /\ phase = "switching" /\ ~bare
  /\ bare' = TRUE
  /\ ev' = [a |-> "RestartBare", res |-> [err |-> FALSE]]
  /\ UNCHANGED <<phase, sidx, srcAcc, snapIdx, outbox, lastOut, fence, hasState, chan, sends, tDelta, tApplied, tw, ownS, ownT>>

Resupply ==
  /\ bare
  /\ bare' = FALSE
  /\ ev' = [a |-> "Resupply", res |-> [err |-> FALSE]]
  /\ UNCHANGED <<phase, sidx, srcAcc, snapIdx, outbox, lastOut, fence, hasState, chan, sends, tDelta, tApplied, tw, ownS, ownT>>

KindSeqs == {<<k>> : k \in Kinds} \cup {<<k1, k2>> : k1 \in Kinds, k2 \in Kinds}
MsgSeqs  == {<<i>> : i \in Idx} \cup (IF MaxDeliver >= 2 THEN {<<i, j>> : i \in Idx, j \in Idx} ELSE {})
              \cup (IF MaxDeliver >= 3 THEN {<<i, j, k>> : i \in Idx, j \in Idx, k \in Idx} ELSE {})

Next ==
  \/ \E ks \in KindSeqs, lose \in Lose : SrcApply(ks, lose)
  \/ StartDelta
  \/ \E ms \in MsgSeqs : Deliver(ms, "none") \/ TgtApplyWithStaleMate(ms) \/ TgtApplyRefused(ms)
  \/ \E i \in Idx : Dup(i) \/ Drop(i) \/ Ack(i)
  \/ \E Snt \in SUBSET outbox : Retry(Snt)
  \/ Switch
  \/ TgtWrite
  \/ Cleanup
  \/ \E who \in {"src", "tgt"} : Restart(who)
  \/ RestartBare
  \/ Resupply

Spec == Init /\ [][Next]_vars

\* What the real machines can be asked for without disturbing them.
Proj == [outbox |-> SortedSeq(outbox), fence |-> fence, deltas |-> SortedSeq(tDelta), applied |-> tApplied]

-------------------------------------------------------------------------------
\* Property C39 on the design.

SrcWrites == {i \in srcAcc : i > snapIdx}   \* accepted after the snapshot: must travel as deltas
Applied   == {tApplied[j] : j \in 1..Len(tApplied)}

\* A write is never applied twice on the target, however often its delta is replayed.
C39_AtMostOnce == Len(tApplied) = Cardinality(Applied)

\* After the switch the target holds every write the source accepted for H (the snapshot
\* holds those up to snapIdx, the deltas the others), nothing else from the source.
C39_NoLossAfterSwitch == phase = "done" => Applied \cap Idx = SrcWrites

\* Nothing is accepted on the source behind the fence, and every accepted write of the delta
\* phase stays recoverable (in the outbox) until the target has it.
C39_FenceClosesSource == fence # 0 /\ hasState => \A i \in srcAcc : i < fence
C39_Recoverable == phase \in {"delta", "switching"} => SrcWrites \subseteq (outbox \cup tDelta)

\* A replayed delta is a no-op.
C39_ReplayNoop ==
  [][ev'.a = "Deliver" /\ (\A j \in 1..Len(ev'.ms) : ev'.ms[j] \in tDelta) => tApplied' = tApplied /\ tDelta' = tDelta]_vars

\* A target batch answered without error leaves a durable applied record for each of its
\* deltas, whatever else shared the batch (that record is what the orchestrator acks on); a
\* refused batch leaves nothing behind.
C39_AnsweredMeansRecorded ==
  [][ev'.a = "Deliver" =>
       IF ev'.res.err THEN tDelta' = tDelta /\ tApplied' = tApplied
       ELSE \A j \in 1..Len(ev'.ms) : ev'.ms[j] \in tDelta']_vars

\* Ordinary writes for H are refused by a machine that does not own it, without effect.
C39_NonOwnerRefuses ==
  [][/\ (ev'.a = "TgtWrite" => (ev'.res.err <=> ~ownT) /\ (ev'.res.err => tApplied' = tApplied))
     /\ (ev'.a = "SrcApply" /\ ~ownS /\ (\E j \in 1..Len(ev'.ks) : ev'.ks[j] = "W") /\ ev'.ks[1] # "F"
           => ev'.res.err /\ srcAcc' = srcAcc /\ outbox' = outbox)]_vars

TypeOK == sidx \in 0..MaxSrc /\ tw \in 0..MaxTgtW /\ \A i \in Idx : chan[i] \in 0..MaxCopies

View == <<phase, sidx, srcAcc, snapIdx, outbox, lastOut, fence, hasState, chan, sends, tDelta, tApplied, tw, ownS, ownT, bare>>
===============================================================================

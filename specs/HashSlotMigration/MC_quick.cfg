\* measured: 59,285 distinct / 814,294 generated states, depth 13
SPECIFICATION Spec
CONSTANTS
  Kinds = {"W", "F"}
  Lose = {FALSE}
  MaxSrc = 4
  MaxCopies = 1
  MaxSends = 2
  MaxTgtW = 1
  MaxDeliver = 2
VIEW View
INVARIANTS TypeOK C39_AtMostOnce C39_NoLossAfterSwitch C39_FenceClosesSource C39_Recoverable
PROPERTIES C39_ReplayNoop C39_AnsweredMeansRecorded C39_NonOwnerRefuses
CHECK_DEADLOCK FALSE

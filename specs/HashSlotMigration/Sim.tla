--------------------------------- MODULE Sim ---------------------------------
(* Behaviour generator: `tlc -simulate` prints one JSON behaviour per line ("BEH {...}")
   at Depth steps or when the migration is complete.  One die per step weights the action
   kinds by phase so that most runs get through the whole migration while the channel
   loses, duplicates and reorders. *)
EXTENDS HashSlotMigration, Json, TLC
CONSTANT Depth
VARIABLE steps

SimInit == Init /\ steps = << [ev |-> ev, st |-> Proj] >>
Pick(S) == {RandomElement(S)}
InFlight == {i \in Idx : chan[i] > 0}
Pending  == {i \in outbox : i \notin tDelta}
AnySrc(K) == \E ks \in Pick({s \in KindSeqs : \A j \in 1..Len(s) : s[j] \in K}), lose \in Pick({FALSE, FALSE, TRUE}) : SrcApply(ks, lose)
Twice == {i \in Idx : chan[i] >= 2}
Fresh == {i \in InFlight : i \notin tDelta}
DeliverAny(mate) ==
  \/ \E i \in Pick(InFlight) : Deliver(<<i>>, mate)
  \/ \E i \in Pick(InFlight), j \in Pick(InFlight) : Deliver(<<i, j>>, mate)
  \/ \E i \in Pick(InFlight), j \in Pick(InFlight), k \in Pick(InFlight) : Deliver(<<i, j, k>>, mate)
  \/ (Twice # {} /\ \E i \in Pick(Twice), j \in Pick(InFlight) : Deliver(<<i, j, i>>, mate))     \* replay inside one batch
  \/ (Twice # {} /\ \E i \in Pick(Twice) : Deliver(<<i, i>>, mate))
  \* aimed: a delta the target has not applied yet, alone or with one more, so that with a stale or
  \* refused mate its first application goes through the fallback / is thrown away with the batch
  \/ (Fresh # {} /\ mate # "none" /\ \E i \in Pick(Fresh) : Deliver(<<i>>, mate))
  \/ (Fresh # {} /\ mate # "none" /\ \E i \in Pick(Fresh), j \in Pick(InFlight) : Deliver(<<j, i>>, mate))
\* one die: half of the target batches carry only deltas, a third a stale mate, a sixth a refused one
AnyDeliver == \E d \in Pick(1..6) : DeliverAny(IF d <= 3 THEN "none" ELSE IF d <= 5 THEN "stale" ELSE "refused")
Fault == \E i \in Pick(InFlight) : Dup(i) \/ Drop(i)
AnyAck == \E i \in Pick(outbox \cap tDelta) : Ack(i)
Filler == IF bare THEN Resupply ELSE \E who \in Pick({"src", "tgt"}) : Restart(who)
Eligible == {i \in outbox : chan[i] < MaxCopies /\ sends[i] < MaxSends}
RetryAll == IF Eligible # {} THEN Retry(Eligible) ELSE Filler

SimStep ==
  \E r \in Pick(1..100) :
    CASE phase = "snapshot" ->
           \/ (r <= 45 /\ AnySrc({"W", "O"}))
           \/ (r > 45 /\ r <= 50 /\ AnySrc({"F", "W"}))
           \/ (r > 50 /\ r <= 58 /\ TgtWrite)
           \/ (r > 58 /\ r <= 62 /\ Filler)
           \/ (r > 62 /\ r <= 80 /\ AnySrc({"W"}))
           \/ (r > 80 /\ StartDelta)
      [] phase = "delta" ->
           \/ (r <= 30 /\ AnySrc({"W", "O"}))
           \/ (r > 30 /\ r <= 50 /\ IF InFlight # {} THEN AnyDeliver ELSE AnySrc({"W"}))
           \/ (r > 50 /\ r <= 60 /\ IF InFlight # {} THEN Fault ELSE AnySrc({"W"}))
           \/ (r > 60 /\ r <= 66 /\ RetryAll)
           \/ (r > 66 /\ r <= 72 /\ IF outbox \cap tDelta # {} THEN AnyAck ELSE Filler)
           \/ (r > 72 /\ r <= 76 /\ TgtWrite)
           \/ (r > 76 /\ r <= 82 /\ Filler)
           \/ (r > 82 /\ AnySrc({"F", "W"}))
      [] phase = "switching" /\ bare ->
           \/ (r <= 55 /\ AnySrc({"W", "F", "O"}))
           \/ (r > 55 /\ r <= 70 /\ IF InFlight # {} THEN AnyDeliver ELSE Resupply)
           \/ (r > 70 /\ Resupply)
      [] phase = "switching" ->
           \/ (r <= 6 /\ RestartBare)
           \/ (r > 6 /\ r <= 12 /\ AnySrc({"W", "F", "O"}))
           \/ (r > 12 /\ r <= 45 /\ IF InFlight # {} THEN AnyDeliver ELSE RetryAll)
           \/ (r > 45 /\ r <= 55 /\ IF InFlight # {} THEN Fault ELSE Filler)
           \/ (r > 55 /\ r <= 68 /\ RetryAll)
           \/ (r > 68 /\ r <= 76 /\ IF outbox \cap tDelta # {} THEN AnyAck ELSE Filler)
           \/ (r > 76 /\ r <= 80 /\ TgtWrite)
           \/ (r > 80 /\ IF fence \in tDelta /\ outbox \subseteq tDelta THEN Switch ELSE IF InFlight # {} THEN AnyDeliver ELSE RetryAll)
      [] OTHER ->
           \/ (r <= 25 /\ TgtWrite)
           \/ (r > 25 /\ r <= 45 /\ AnySrc({"W", "F", "O"}))
           \/ (r > 45 /\ r <= 65 /\ IF InFlight # {} THEN AnyDeliver ELSE Filler)
           \/ (r > 65 /\ r <= 75 /\ IF InFlight # {} THEN Fault ELSE Filler)
           \/ (r > 75 /\ r <= 85 /\ IF hasState THEN Cleanup ELSE Filler)
           \/ (r > 85 /\ Filler)
SimNext == SimStep /\ steps' = Append(steps, [ev |-> ev', st |-> Proj'])
Emit    == Len(steps) = Depth + 1 => PrintT("BEH " \o ToJson([steps |-> steps]))
===============================================================================

\* measured: 950,360 distinct / 18,612,977 generated states (MaxSends = 2: 135,788 / 1,644,698); MaxSrc = 5 does not finish in 50 min
SPECIFICATION Spec
CONSTANTS
  Kinds = {"W", "F", "O"}
  Lose = {FALSE, TRUE}
  MaxSrc = 4
  MaxCopies = 2
  MaxSends = 3
  MaxTgtW = 1
  MaxDeliver = 3
VIEW View
INVARIANTS TypeOK C39_AtMostOnce C39_NoLossAfterSwitch C39_FenceClosesSource C39_Recoverable
PROPERTIES C39_ReplayNoop C39_NonOwnerRefuses
CHECK_DEADLOCK FALSE

\* measured: 950,360 distinct / 38,730,965 generated states, depth 15 (25 min, 4 workers, loaded machine); MaxSrc = 5 does not finish in 50 min
SPECIFICATION Spec
CONSTANTS
  Kinds = {"W", "F", "O"}
  Lose = {FALSE, TRUE}
  MaxSrc = 4
  MaxCopies = 2
  MaxSends = 3
  MaxTgtW = 1
  MaxDeliver = 3
VIEW View
INVARIANTS TypeOK C39_AtMostOnce C39_NoLossAfterSwitch C39_FenceClosesSource C39_Recoverable
PROPERTIES C39_ReplayNoop C39_AnsweredMeansRecorded C39_NonOwnerRefuses
CHECK_DEADLOCK FALSE

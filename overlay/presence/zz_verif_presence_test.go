package presence_test

// Conformance harness for specs/Presence (property C33). Compiled into
// internal/runtime/presence through `go test -overlay`; uses exported API only.
//
// Model <-> code mapping
//   - hash slot hs          -> RouteTarget.HashSlot presHashSlots[hs]
//   - authority identity id -> a RouteTarget fence tuple. Identity 1 (or the first
//     non-foreign one) is the base tuple; every other identity differs from the base
//     in ONE fence field chosen per directory instance from the seed (SlotID,
//     LeaderTerm, ConfigEpoch, LeaderNodeID), so that a fence that forgets a field is
//     seen. Foreign identities (cfg.foreign) differ in LeaderNodeID from the
//     directory's LocalNodeID. RouteRevision / AuthorityEpoch are random noise on
//     every call: they are not part of the fence.
//   - connection c          -> RouteIdentity (uid from cfg.conns, session/node/boot
//     from presIdent) and the device attributes of cfg.conns[c]
//   - pending token k       -> the k-th token the directory issued in the current
//     incarnation of that hash slot (0 or unknown -> a token never issued)
//
// Behaviours come from two generators: specs/Presence/Sim.tla (VERIF_BEH) and
// specs/Presence/SimBuckets.tla (sim stage "buckets", $VERIF_BEH_DIR/beh_buckets.jsonl: one hash slot
// holding many routes with many distinct activity seconds). Every fourth driver trace ("bucket mode")
// runs the same kind of workload with activity seconds 1..600.

import (
	"errors"
	"fmt"
	"hash/fnv"
	"math/rand"
	"os"
	"sort"
	"testing"
	"time"

	"github.com/WuKongIM/WuKongIM/internal/runtime/presence"
	"github.com/WuKongIM/WuKongIM/internal/zzverif/kit"
)

var presHashSlots = map[int64]uint16{1: 5, 2: 37, 3: 6} // 5 and 37 share a shard with 32 and with 4 shards

// session, node, boot per connection number: pairs of one uid differ in one field only
var presIdent = [][3]uint64{
	{10, 1, 100}, {10, 1, 101}, {10, 2, 100}, {11, 1, 100}, {11, 2, 100}, {10, 2, 101}, {11, 1, 101}, {11, 2, 101},
	{12, 1, 100}, {12, 2, 100}, {12, 1, 101}, {12, 2, 101},
}

type presAttr struct {
	uid   string
	flag  uint8
	level uint8
	dev   string
}

type presSUT struct {
	dir     *presence.Directory
	rng     *rand.Rand
	slots   []int64
	auths   []int64
	conns   []presAttr // conns[c-1]
	uids    []string   // sorted distinct uids
	foreign map[int64]bool
	fence   map[int64]presence.RouteTarget // identity -> fence tuple (HashSlot filled per call)
	cur     map[int64]int64                // hash slot -> identity last installed (harness view; token numbering only)
	toks    map[int64]map[int64]presence.PendingRouteToken
	ntok    map[int64]int64
	order   *presOrder
}

// presOrder checks that lookups order the routes of a uid consistently over a run.
type presOrder struct {
	before map[[2]presence.RouteIdentity]bool
	bad    string
}

func (o *presOrder) see(routes []presence.Route) {
	for i := 0; i < len(routes); i++ {
		for j := i + 1; j < len(routes); j++ {
			a, b := routes[i].Identity(), routes[j].Identity()
			if a.UID != b.UID || a == b {
				continue
			}
			if o.before[[2]presence.RouteIdentity{b, a}] && o.bad == "" {
				o.bad = fmt.Sprintf("routes %+v and %+v were returned in both orders", a, b)
			}
			o.before[[2]presence.RouteIdentity{a, b}] = true
		}
	}
}

func newPresSUT(cfg map[string]any, slots []int64, rng *rand.Rand, order *presOrder) (*presSUT, error) {
	s := &presSUT{rng: rng, slots: slots, foreign: map[int64]bool{}, fence: map[int64]presence.RouteTarget{},
		cur: map[int64]int64{}, toks: map[int64]map[int64]presence.PendingRouteToken{}, ntok: map[int64]int64{}, order: order}
	for _, a := range kit.List(cfg, "auths") {
		s.auths = append(s.auths, kit.ToInt(a))
	}
	for _, f := range kit.List(cfg, "foreign") {
		s.foreign[kit.ToInt(f)] = true
	}
	seen := map[string]bool{}
	for _, c := range kit.List(cfg, "conns") {
		m, _ := c.(map[string]any)
		a := presAttr{uid: kit.Str(m, "uid"), flag: uint8(kit.Int(m, "flag")), level: uint8(kit.Int(m, "level")), dev: kit.Str(m, "dev")}
		s.conns = append(s.conns, a)
		if !seen[a.uid] {
			seen[a.uid] = true
			s.uids = append(s.uids, a.uid)
		}
	}
	sort.Strings(s.uids)
	if len(s.auths) == 0 || len(s.conns) == 0 || len(s.conns) > len(presIdent) {
		return nil, fmt.Errorf("bad cfg %s", kit.JSON(cfg))
	}
	for _, hs := range slots {
		if _, ok := presHashSlots[hs]; !ok {
			return nil, fmt.Errorf("no hash slot for model slot %d", hs)
		}
	}
	local := uint64(0)
	if len(s.foreign) > 0 || rng.Intn(4) != 0 {
		local = 1
	}
	base := presence.RouteTarget{SlotID: 7, LeaderNodeID: 1, LeaderTerm: 5, ConfigEpoch: 9}
	first := true
	for _, id := range s.auths {
		t := base
		switch {
		case s.foreign[id]:
			t.LeaderNodeID = 1 + uint64(id)
		case first:
			first = false
		default:
			fields := 3
			if local == 0 {
				fields = 4
			}
			d := uint64(id)
			switch rng.Intn(fields) {
			case 0:
				t.SlotID += uint32(d)
			case 1:
				if rng.Intn(2) == 0 {
					t.LeaderTerm += d
				} else {
					t.LeaderTerm -= d // an older term
				}
			case 2:
				t.ConfigEpoch += d
			case 3:
				t.LeaderNodeID += d
			}
		}
		s.fence[id] = t
	}
	s.dir = presence.NewDirectory(presence.DirectoryOptions{LocalNodeID: local, ShardCount: []int{0, 1, 4, 32}[rng.Intn(4)]})
	return s, nil
}

func (s *presSUT) target(t map[string]any) presence.RouteTarget {
	return s.targetOf(kit.Int(t, "hs"), kit.Int(t, "id"))
}

func (s *presSUT) targetOf(hs, id int64) presence.RouteTarget {
	t := s.fence[id]
	t.HashSlot = presHashSlots[hs]
	t.RouteRevision = uint64(s.rng.Intn(4))
	t.AuthorityEpoch = uint64(s.rng.Intn(4))
	return t
}

func (s *presSUT) identity(c int64) presence.RouteIdentity {
	if c < 1 || int(c) > len(s.conns) {
		return presence.RouteIdentity{UID: "nobody", SessionID: 999}
	}
	id := presIdent[c-1]
	return presence.RouteIdentity{UID: s.conns[c-1].uid, SessionID: id[0], OwnerNodeID: id[1], OwnerBootID: id[2]}
}

func (s *presSUT) route(c, seq, seen int64) presence.Route {
	id := s.identity(c)
	a := s.conns[c-1]
	r := presence.Route{UID: id.UID, OwnerNodeID: id.OwnerNodeID, OwnerBootID: id.OwnerBootID, SessionID: id.SessionID,
		OwnerSeq: uint64(seq), DeviceID: a.dev, DeviceFlag: a.flag, DeviceLevel: a.level, Listener: "tcp"}
	// the activity time is LastSeenUnix, or ConnectedUnix when LastSeenUnix is not set
	if seen != 0 {
		if s.rng.Intn(3) == 0 {
			r.ConnectedUnix = seen
		} else {
			r.LastSeenUnix = seen
			r.ConnectedUnix = s.rng.Int63n(seen + 1)
		}
	}
	return r
}

func (s *presSUT) connOf(id presence.RouteIdentity) int64 {
	for c := int64(1); int(c) <= len(s.conns); c++ {
		if s.identity(c) == id {
			return c
		}
	}
	return -1
}

func presErr(err error) string {
	switch {
	case err == nil:
		return "ok"
	case errors.Is(err, presence.ErrNotLeader):
		return "not_leader"
	case errors.Is(err, presence.ErrStaleRoute):
		return "stale"
	case errors.Is(err, presence.ErrRouteNotReady):
		return "not_ready"
	}
	return "other: " + err.Error()
}

func (s *presSUT) routeRec(r presence.Route) map[string]any {
	seen := r.LastSeenUnix
	if seen == 0 {
		seen = r.ConnectedUnix
	}
	return map[string]any{"c": s.connOf(r.Identity()), "seq": r.OwnerSeq, "seen": seen}
}

// byUID splits a lookup reply into the routes of each requested uid, each as a list
// ordered by connection number (the specification's set of routes).
func (s *presSUT) byUID(routes []presence.Route, uids []string) []any {
	out := make([]any, len(uids))
	for i, u := range uids {
		recs := []map[string]any{}
		for _, r := range routes {
			if r.UID == u {
				recs = append(recs, s.routeRec(r))
			}
		}
		sort.Slice(recs, func(a, b int) bool { return recs[a]["c"].(int64) < recs[b]["c"].(int64) })
		out[i] = recs
	}
	for _, r := range routes { // a route of a uid that was not asked for
		found := false
		for _, u := range uids {
			found = found || r.UID == u
		}
		if !found {
			out = append(out, []map[string]any{s.routeRec(r)})
		}
	}
	return out
}

func sameRoutes(a, b []presence.Route) bool {
	if len(a) != len(b) {
		return false
	}
	for i := range a {
		if a[i] != b[i] {
			return false
		}
	}
	return true
}

// lookup performs one exported lookup twice (determinism) and feeds the order check.
func (s *presSUT) lookup(t presence.RouteTarget, uids []string, via string) ([]presence.Route, error) {
	call := func() ([]presence.Route, error) {
		if via == "uid" {
			var all []presence.Route
			for _, u := range uids {
				r, err := s.dir.EndpointsByUID(t, u)
				if err != nil {
					return nil, err
				}
				all = append(all, r...)
			}
			return all, nil
		}
		return s.dir.EndpointsByUIDs(t, uids)
	}
	r1, err1 := call()
	r2, err2 := call()
	if presErr(err1) != presErr(err2) || !sameRoutes(r1, r2) {
		if s.order.bad == "" {
			s.order.bad = fmt.Sprintf("the same lookup on the same state returned %v then %v", r1, r2)
		}
	}
	s.order.see(r1)
	return r1, err1
}

func strList(v []any) []string {
	out := make([]string, len(v))
	for i, x := range v {
		out[i], _ = x.(string)
	}
	return out
}

// apply performs the call described by ev (its "res" is ignored) and returns the
// observed reply.
func (s *presSUT) apply(ev map[string]any) (res any, err error) {
	switch kit.Str(ev, "a") {
	case "Become":
		hs, id := kit.Int(ev, "hs"), kit.Int(ev, "id")
		s.dir.BecomeAuthority(s.targetOf(hs, id))
		if s.cur[hs] != id {
			s.cur[hs], s.ntok[hs], s.toks[hs] = id, 0, nil
		}
		res = map[string]any{"err": "ok"}
	case "Lose":
		hs := kit.Int(ev, "hs")
		s.dir.LoseAuthority(presHashSlots[hs])
		s.cur[hs], s.ntok[hs], s.toks[hs] = 0, 0, nil
		res = map[string]any{"err": "ok"}
	case "Register":
		t := kit.Map(ev, "t")
		hs := kit.Int(t, "hs")
		r, e := s.dir.RegisterRoute(s.target(t), s.route(kit.Int(ev, "c"), kit.Int(ev, "seq"), kit.Int(ev, "seen")))
		tok := int64(0)
		if r.PendingToken != "" {
			s.ntok[hs]++
			tok = s.ntok[hs]
			if s.toks[hs] == nil {
				s.toks[hs] = map[int64]presence.PendingRouteToken{}
			}
			s.toks[hs][tok] = r.PendingToken
		}
		conf := []int64{}
		for _, a := range r.Actions {
			conf = append(conf, s.connOf(presence.RouteIdentity{UID: a.UID, OwnerNodeID: a.OwnerNodeID, OwnerBootID: a.OwnerBootID, SessionID: a.SessionID}))
		}
		sort.Slice(conf, func(i, j int) bool { return conf[i] < conf[j] })
		res = map[string]any{"err": presErr(e), "tok": tok, "conf": conf}
	case "Commit", "Abort":
		t := kit.Map(ev, "t")
		real, ok := s.toks[kit.Int(t, "hs")][kit.Int(ev, "tok")]
		if !ok {
			real = presence.PendingRouteToken(fmt.Sprintf("verif-never-issued-%d", kit.Int(ev, "tok")))
		}
		var e error
		if kit.Str(ev, "a") == "Commit" {
			e = s.dir.CommitRoute(s.target(t), real)
		} else {
			e = s.dir.AbortRoute(s.target(t), real)
		}
		res = map[string]any{"err": presErr(e)}
	case "Unregister":
		e := s.dir.UnregisterRoute(s.target(kit.Map(ev, "t")), s.identity(kit.Int(ev, "c")), uint64(kit.Int(ev, "seq")))
		res = map[string]any{"err": presErr(e)}
	case "Touch":
		var routes []presence.Route
		for _, it := range kit.List(ev, "items") {
			m, _ := it.(map[string]any)
			routes = append(routes, s.route(kit.Int(m, "c"), kit.Int(m, "seq"), kit.Int(m, "seen")))
		}
		e := s.dir.TouchRoutes(s.target(kit.Map(ev, "t")), routes)
		res = map[string]any{"err": presErr(e)}
	case "Expire":
		now := time.Time{}
		if n := kit.Int(ev, "now"); n != 0 {
			now = time.Unix(n, 0)
		}
		ttl := time.Duration(kit.Int(ev, "ttl")) * time.Second
		var n int
		if s.rng.Intn(2) == 0 {
			n = s.dir.ExpireRoutes(now, ttl)
		} else {
			n = s.dir.ExpireRoutesDetailed(now, ttl).Expired
		}
		res = map[string]any{"expired": n}
	case "Lookup":
		uids := strList(kit.List(ev, "uids"))
		routes, e := s.lookup(s.target(kit.Map(ev, "t")), uids, kit.Str(ev, "via"))
		if e != nil {
			res = map[string]any{"err": presErr(e), "routes": []any{}}
		} else {
			res = map[string]any{"err": "ok", "routes": s.byUID(routes, uids)}
		}
	case "LookupGroups":
		var groups []presence.EndpointLookupGroup
		var uidsOf [][]string
		for _, g := range kit.List(ev, "groups") {
			m, _ := g.(map[string]any)
			uids := strList(kit.List(m, "uids"))
			uidsOf = append(uidsOf, uids)
			groups = append(groups, presence.EndpointLookupGroup{Target: s.target(kit.Map(m, "t")), UIDs: uids})
		}
		r1 := s.dir.EndpointsByTargets(groups)
		r2 := s.dir.EndpointsByTargets(groups)
		out := make([]any, len(r1))
		for i := range r1 {
			if i < len(r2) && (presErr(r1[i].Err) != presErr(r2[i].Err) || !sameRoutes(r1[i].Routes, r2[i].Routes)) && s.order.bad == "" {
				s.order.bad = fmt.Sprintf("the same group lookup on the same state returned %v then %v", r1[i].Routes, r2[i].Routes)
			}
			s.order.see(r1[i].Routes)
			if r1[i].Err != nil {
				out[i] = map[string]any{"err": presErr(r1[i].Err), "routes": []any{}}
			} else {
				out[i] = map[string]any{"err": "ok", "routes": s.byUID(r1[i].Routes, uidsOf[i])}
			}
		}
		res = out
	default:
		return nil, fmt.Errorf("unknown action %q", kit.Str(ev, "a"))
	}
	return res, nil
}

// accepting returns the identity whose targets the directory accepts for hs
// (0 = none, -1 = more than one) and the active routes it reports.
func (s *presSUT) accepting(hs int64) (int64, []presence.Route) {
	id, n := int64(0), 0
	var routes []presence.Route
	for _, a := range s.auths {
		r, err := s.lookup(s.targetOf(hs, a), s.uids, "uids")
		if err == nil {
			id, routes = a, r
			n++
		}
	}
	if n > 1 {
		return -1, routes
	}
	return id, routes
}

// proj observes the projection without disturbing the directory.
func (s *presSUT) proj() map[string]any {
	snap := s.dir.Snapshot()
	slots := []any{}
	known := 0
	for _, hs := range s.slots {
		id, routes := s.accepting(hs)
		recs := []map[string]any{}
		for _, r := range routes {
			recs = append(recs, s.routeRec(r))
		}
		sort.Slice(recs, func(a, b int) bool { return recs[a]["c"].(int64) < recs[b]["c"].(int64) })
		n := snap.ByHashSlot[presHashSlots[hs]]
		known += n
		slots = append(slots, map[string]any{"hs": hs, "id": id, "routes": recs, "count": n})
	}
	active := snap.Active
	if known != active { // routes counted under a hash slot nobody installed
		active = -active - 1
	}
	return map[string]any{"slots": slots, "active": active}
}

// final consumes the directory: live pending tokens and the stale fence of every connection.
func (s *presSUT) final() ([]any, error) {
	out := []any{}
	for _, hs := range s.slots {
		id, _ := s.accepting(hs)
		if id <= 0 {
			out = append(out, map[string]any{"hs": hs, "pend": []any{}, "fence": []any{}})
			continue
		}
		pend := []int64{}
		for k := int64(1); k <= s.ntok[hs]; k++ {
			if e := s.dir.AbortRoute(s.targetOf(hs, id), s.toks[hs][k]); e == nil {
				pend = append(pend, k)
			}
		}
		fence := []int64{}
		for c := int64(1); int(c) <= len(s.conns); c++ {
			q := int64(0)
			for ; ; q++ {
				_, e := s.dir.RegisterRoute(s.targetOf(hs, id), s.route(c, q, 1))
				if !errors.Is(e, presence.ErrStaleRoute) {
					break
				}
				if q > 1000 {
					return nil, fmt.Errorf("no owner sequence up to %d is accepted for connection %d", q, c)
				}
			}
			fence = append(fence, q)
		}
		out = append(out, map[string]any{"hs": hs, "pend": pend, "fence": fence})
	}
	return out, nil
}

func presHash(v any) int64 {
	h := fnv.New64a()
	h.Write([]byte(kit.JSON(v)))
	return int64(h.Sum64() >> 1)
}

func presSlotsOf(st any) []int64 {
	m, _ := st.(map[string]any)
	var out []int64
	for _, x := range kit.List(m, "slots") {
		sm, _ := x.(map[string]any)
		out = append(out, kit.Int(sm, "hs"))
	}
	return out
}

func TestVerifPresence(t *testing.T) {
	env, ok := kit.LoadEnv()
	if !ok {
		t.Skip("not started by the verif runner")
	}
	rep := kit.NewReport(env, "presence")
	rec, err := kit.NewRecorder(env.TraceFile)
	if err != nil {
		t.Fatal(err)
	}
	order := &presOrder{before: map[[2]presence.RouteIdentity]bool{}}
	checkOrder := func(replay any) bool {
		if order.bad == "" {
			return false
		}
		rep.Violate("C33", "order", "lookup order is not deterministic: "+order.bad, replay)
		order.bad = ""
		return true
	}

	// ---- spec -> code: replay TLC behaviours ----
	behs, err := kit.LoadBehaviours(env.BehFile)
	if err != nil {
		rep.Infra("load behaviours: %v", err)
	}
	// the behaviours of the second generator (sim stage "buckets", specs/Presence/SimBuckets.tla:
	// many routes with many distinct activity seconds in one hash slot)
	if dir := os.Getenv("VERIF_BEH_DIR"); dir != "" && env.BehFile != "" {
		if _, serr := os.Stat(dir + "/beh_buckets.jsonl"); serr == nil {
			more, err := kit.LoadBehaviours(dir + "/beh_buckets.jsonl")
			if err != nil {
				rep.Infra("load behaviours (buckets): %v", err)
			}
			rep.Extra("bucket_behaviours", len(more))
			behs = append(behs, more...)
		}
	}
	for bi, b := range behs {
		if len(b.Steps) == 0 || kit.Str(b.Steps[0].Ev, "a") != "Init" {
			rep.Infra("behaviour %d does not start with Init", bi)
			continue
		}
		sut, err := newPresSUT(kit.Map(b.Steps[0].Ev, "cfg"), presSlotsOf(b.Steps[0].St),
			rand.New(rand.NewSource(env.Seed*1000003+presHash(b))), order) // same presentation when the behaviour is replayed alone
		if err != nil {
			rep.Infra("behaviour %d: %v", bi, err)
			continue
		}
		bad := false
		for si, st := range b.Steps[1:] {
			res, err := sut.apply(st.Ev)
			rep.Cover(kit.Str(st.Ev, "a"))
			if err != nil {
				rep.Infra("behaviour %d step %d: %v", bi, si+1, err)
				bad = true
				break
			}
			if d := kit.Diff(st.Ev["res"], res); d != "" {
				rep.Violate("C33", "reply", fmt.Sprintf("step %d %s: %s", si+1, kit.JSON(kit.CloneEv(st.Ev)), d),
					map[string]any{"behaviour": b, "step": si + 1, "observed": res})
				bad = true
				break
			}
			proj := sut.proj()
			if d := kit.Diff(st.St, proj); d != "" {
				rep.Violate("C33", "state", fmt.Sprintf("after step %d %s: %s", si+1, kit.JSON(kit.CloneEv(st.Ev)), d),
					map[string]any{"behaviour": b, "step": si + 1, "observed": proj})
				bad = true
				break
			}
			if checkOrder(map[string]any{"behaviour": b, "step": si + 1}) {
				bad = true
				break
			}
		}
		if !bad && b.Final != nil {
			fin, err := sut.final()
			if err != nil {
				rep.Violate("C33", "final", err.Error(), map[string]any{"behaviour": b})
			} else if d := kit.Diff(b.Final, fin); d != "" {
				rep.Violate("C33", "final", "pending tokens / owner-sequence fences at the end: "+d,
					map[string]any{"behaviour": b, "observed": fin})
			}
		}
		rep.Replayed(len(b.Steps) - 1)
		if bi == 0 {
			rep.Sample(b)
		}
	}

	// ---- code -> spec: seeded random driver, trace validated by TLC ----
	rng := env.Rand()
	profiles := [][]presAttr{
		{{"u1", 0, 1, "a"}, {"u1", 0, 0, "a"}, {"u1", 0, 0, "b"}, {"u2", 0, 1, "a"}},
		{{"u1", 0, 0, "a"}, {"u1", 0, 0, "a"}, {"u2", 0, 1, "a"}, {"u2", 0, 1, "b"}, {"u1", 0, 1, "b"}},
		{{"u1", 0, 1, "a"}, {"u1", 0, 0, "a"}, {"u1", 0, 0, "b"}, {"u2", 0, 1, "a"}, {"u2", 0, 1, "b"}, {"u1", 1, 2, "a"}},
		{{"u1", 0, 1, "a"}, {"u1", 0, 1, "b"}, {"u1", 0, 2, "a"}, {"u1", 1, 0, "a"}, {"u1", 1, 0, "a"}, {"u2", 0, 0, "a"}},
	}
	// bucket mode (every fourth trace): ten connections that (all but the last) never conflict, all in
	// hash slot 1 under one incarnation, activity seconds from a wide domain in arbitrary order, touches
	// and unregisters that empty activity seconds, expiries whose cutoff lies between the seconds present
	wide := []presAttr{{"u1", 0, 2, "a"}, {"u1", 1, 2, "a"}, {"u2", 0, 0, "a"}, {"u2", 0, 0, "b"}, {"u3", 0, 0, "a"},
		{"u3", 1, 0, "a"}, {"u4", 0, 2, "a"}, {"u5", 0, 2, "a"}, {"u5", 0, 0, "b"}, {"u4", 0, 1, "b"}}
	bucketTraces := 0
	slots := []int64{1, 2}
	auths := []int64{1, 2, 3}
	traces := env.Pick(120, 1500)
	for tr := 0; tr < traces; tr++ {
		prof := profiles[rng.Intn(len(profiles))]
		bucketMode := tr%4 == 3
		if bucketMode {
			prof = wide
			bucketTraces++
		}
		conns := []any{}
		for _, a := range prof {
			conns = append(conns, map[string]any{"uid": a.uid, "flag": int(a.flag), "level": int(a.level), "dev": a.dev})
		}
		foreign := []any{}
		if rng.Intn(2) == 0 && !bucketMode {
			foreign = append(foreign, int64(1+rng.Intn(3)))
		}
		cfg := kit.Canon(map[string]any{"conns": conns, "foreign": foreign, "auths": auths}).(map[string]any)
		sut, err := newPresSUT(cfg, slots, rand.New(rand.NewSource(env.Seed*7000003+int64(tr))), order)
		if err != nil {
			rep.Infra("driver: %v", err)
			break
		}
		rec.Begin(map[string]any{"cfg": cfg}, sut.proj())
		nconn := int64(len(prof))
		// what the driver believes is active (from the last projection), to aim calls
		type act struct{ c, seq, seen int64 }
		active := map[int64][]act{}
		accept := map[int64]int64{}
		observe := func(p map[string]any) {
			for _, x := range p["slots"].([]any) {
				m := x.(map[string]any)
				hs := m["hs"].(int64)
				accept[hs] = m["id"].(int64)
				active[hs] = active[hs][:0]
				for _, r := range m["routes"].([]map[string]any) {
					active[hs] = append(active[hs], act{r["c"].(int64), int64(r["seq"].(uint64)), r["seen"].(int64)})
				}
			}
		}
		maxSeq := map[[2]int64]int64{}
		live := map[int64][]int64{} // tokens the driver believes are still pending, per hash slot
		liveTok := func(hs int64) int64 {
			if l := live[hs]; len(l) > 0 && rng.Intn(5) != 0 {
				return l[rng.Intn(len(l))]
			}
			return int64(rng.Intn(3))
		}
		tgt := func(aim bool) map[string]any {
			hs := slots[rng.Intn(len(slots))]
			if aim {
				for _, h := range []int64{hs, 3 - hs} {
					if accept[h] > 0 {
						return map[string]any{"hs": h, "id": accept[h]}
					}
				}
			}
			return map[string]any{"hs": hs, "id": auths[rng.Intn(len(auths))]}
		}
		seqFor := func(hs, c int64) int64 {
			m := maxSeq[[2]int64{hs, c}]
			q := m - 1 + int64(rng.Intn(4))
			if q < 0 {
				q = 0
			}
			return q
		}
		note := func(t map[string]any, c, q int64) {
			k := [2]int64{t["hs"].(int64), c}
			if q > maxSeq[k] {
				maxSeq[k] = q
			}
		}
		uidList := func() []any {
			us := append([]string{}, sut.uids...)
			rng.Shuffle(len(us), func(i, j int) { us[i], us[j] = us[j], us[i] })
			us = us[:1+rng.Intn(len(us))]
			out := make([]any, len(us))
			for i, u := range us {
				out[i] = u
			}
			return out
		}
		step := func(ev map[string]any) bool {
			res, err := sut.apply(ev)
			if err != nil {
				rep.Infra("driver: %v", err)
				return false
			}
			ev["res"] = res
			if t, _ := ev["t"].(map[string]any); t != nil {
				hs := t["hs"].(int64)
				m, _ := res.(map[string]any)
				switch kit.Str(ev, "a") {
				case "Register":
					if k, _ := m["tok"].(int64); k > 0 {
						live[hs] = append(live[hs], k)
					}
				case "Commit", "Abort":
					if m["err"] == "ok" || m["err"] == "stale" {
						k := ev["tok"].(int64)
						for i, x := range live[hs] {
							if x == k {
								live[hs] = append(live[hs][:i], live[hs][i+1:]...)
								break
							}
						}
					}
				}
			}
			for _, hs := range slots {
				if sut.ntok[hs] == 0 {
					live[hs] = nil
				}
			}
			p := sut.proj()
			observe(p)
			rec.Step(ev, p)
			rep.Cover(kit.Str(ev, "a"))
			return !checkOrder(map[string]any{"event": ev, "trace": tr})
		}
		var lastExpire map[string]any
		var plan []string
		bucketStep := func() map[string]any {
			hs := int64(1)
			if accept[hs] <= 0 {
				return kit.Ev("Become", "hs", hs, "id", auths[rng.Intn(len(auths))])
			}
			t := map[string]any{"hs": hs, "id": accept[hs]}
			a := active[hs]
			on := map[int64]bool{}
			secs := map[int64]bool{}
			maxSeen := int64(0)
			for _, x := range a {
				on[x.c] = true
				if x.seen != 0 {
					secs[x.seen] = true
				}
				if x.seen > maxSeen {
					maxSeen = x.seen
				}
			}
			var idle []int64
			for c := int64(1); c <= nconn; c++ {
				if !on[c] {
					idle = append(idle, c)
				}
			}
			anySeen := func() int64 { return 1 + rng.Int63n(600) }
			sorted := make([]int64, 0, len(secs))
			for x := range secs {
				sorted = append(sorted, x)
			}
			sort.Slice(sorted, func(i, j int) bool { return sorted[i] < sorted[j] })
			sweep := func() map[string]any {
				ttl := 1 + rng.Int63n(8)
				return kit.Ev("Expire", "now", sorted[0]+ttl+1, "ttl", ttl)
			}
			// the scripted probe (see specs/Presence/SimBuckets.tla): a route arrives late with an old
			// activity second, a route alone in a newer second leaves it, the clock sweeps forward
			if len(plan) > 0 {
				head := plan[0]
				plan = plan[1:]
				if head == "leave" && len(sorted) > 0 {
					median := sorted[len(sorted)/2]
					var up []act
					for _, x := range a {
						alone := x.seen >= median
						for _, y := range a {
							alone = alone && (y.c == x.c || y.seen != x.seen)
						}
						if alone {
							up = append(up, x)
						}
					}
					if len(up) > 0 {
						x := up[rng.Intn(len(up))]
						note(t, x.c, x.seq)
						if rng.Intn(3) == 0 {
							return kit.Ev("Unregister", "t", t, "c", x.c, "seq", x.seq)
						}
						return kit.Ev("Touch", "t", t, "items", []any{map[string]any{"c": x.c, "seq": x.seq, "seen": maxSeen + 1 + rng.Int63n(5)}})
					}
				}
				if len(sorted) > 0 {
					return sweep()
				}
				plan = nil
			}
			if len(sorted) >= 5 && rng.Intn(3) == 0 {
				var free []int64
				for _, c := range idle {
					ok := true
					for _, x := range a {
						in, ex := prof[c-1], prof[x.c-1]
						if in.uid == ex.uid && in.flag == ex.flag && (in.level == 1 || (in.level == 0 && in.dev == ex.dev)) {
							ok = false
						}
					}
					if ok {
						free = append(free, c)
					}
				}
				var old []int64
				for x := sorted[0] + 1; x < sorted[len(sorted)/2]; x++ {
					if !secs[x] {
						old = append(old, x)
					}
				}
				if len(free) > 0 && len(old) > 0 {
					c := free[rng.Intn(len(free))]
					q := maxSeq[[2]int64{hs, c}] + 1
					note(t, c, q)
					plan = []string{"leave", "sweep", "sweep"}
					for n := rng.Intn(3); n > 0; n-- {
						plan = append(plan, "sweep")
					}
					return kit.Ev("Register", "t", t, "c", c, "seq", q, "seen", old[rng.Intn(len(old))])
				}
			}
			r := rng.Intn(100)
			switch {
			case len(idle) > 0 && (r < 25 || (len(secs) < 6 && r < 60)):
				c := idle[rng.Intn(len(idle))]
				q := maxSeq[[2]int64{hs, c}] + int64(rng.Intn(2))
				if _, known := maxSeq[[2]int64{hs, c}]; !known {
					q = int64(rng.Intn(2))
				}
				if rng.Intn(6) == 0 {
					q = seqFor(hs, c)
				}
				note(t, c, q)
				if rng.Intn(4) == 0 { // a touch recreates a missing route
					return kit.Ev("Touch", "t", t, "items", []any{map[string]any{"c": c, "seq": q, "seen": anySeen()}})
				}
				return kit.Ev("Register", "t", t, "c", c, "seq", q, "seen", anySeen())
			case len(live[hs]) > 0 && r < 64:
				return kit.Ev("Commit", "t", t, "tok", liveTok(hs))
			case len(a) > 0 && r < 80:
				items := []any{}
				for n := 1 + rng.Intn(3); n > 0; n-- {
					x := a[rng.Intn(len(a))]
					q := x.seq
					if rng.Intn(4) == 0 {
						q++
					}
					seen := anySeen()
					if rng.Intn(2) == 0 { // a heartbeat: newer than everything present
						seen = maxSeen + 1 + rng.Int63n(5)
					}
					note(t, x.c, q)
					items = append(items, map[string]any{"c": x.c, "seq": q, "seen": seen})
				}
				return kit.Ev("Touch", "t", t, "items", items)
			case len(a) > 0 && r < 87:
				x := a[rng.Intn(len(a))]
				note(t, x.c, x.seq)
				return kit.Ev("Unregister", "t", t, "c", x.c, "seq", x.seq)
			case len(a) > 0 && r < 97:
				if lastExpire != nil && rng.Intn(3) == 0 { // again at the same instant: nothing more is due
					return kit.Ev("Expire", "now", lastExpire["now"], "ttl", lastExpire["ttl"])
				}
				x := a[rng.Intn(len(a))]
				ttl := 1 + rng.Int63n(8)
				return kit.Ev("Expire", "now", x.seen+ttl+rng.Int63n(3), "ttl", ttl)
			case r < 98:
				return kit.Ev("Become", "hs", hs, "id", accept[hs]) // revision-only update
			}
			return kit.Ev("Lookup", "t", t, "uids", uidList(), "via", []string{"uids", "uid"}[rng.Intn(2)])
		}
		steps := 15 + rng.Intn(35)
		if bucketMode {
			steps = 50 + rng.Intn(40)
		}
		ok := true
		for i := 0; i < steps && ok; i++ {
			if bucketMode {
				ev := bucketStep()
				lastExpire = nil
				if kit.Str(ev, "a") == "Expire" {
					lastExpire = ev
				}
				ok = step(ev)
				continue
			}
			aim := rng.Intn(5) != 0
			conn := func() int64 { return 1 + rng.Int63n(nconn) }
			var ev map[string]any
			switch r := rng.Intn(100); {
			case r < 6:
				hs := slots[rng.Intn(len(slots))]
				id := auths[rng.Intn(len(auths))]
				if sut.cur[hs] != 0 && rng.Intn(2) == 0 {
					id = sut.cur[hs] // revision-only update
				}
				ev = kit.Ev("Become", "hs", hs, "id", id)
			case r < 10:
				// install where nothing accepts
				hs := slots[rng.Intn(len(slots))]
				if accept[hs] > 0 {
					hs = 3 - hs
				}
				if accept[hs] > 0 {
					ev = kit.Ev("Expire", "now", rng.Int63n(11), "ttl", 1+rng.Int63n(3))
				} else {
					ev = kit.Ev("Become", "hs", hs, "id", auths[rng.Intn(len(auths))])
				}
			case r < 12:
				ev = kit.Ev("Lose", "hs", slots[rng.Intn(len(slots))])
			case r < 34:
				t := tgt(aim)
				c := conn()
				q := seqFor(t["hs"].(int64), c)
				note(t, c, q)
				ev = kit.Ev("Register", "t", t, "c", c, "seq", q, "seen", rng.Int63n(7))
			case r < 46:
				t := tgt(aim)
				ev = kit.Ev("Commit", "t", t, "tok", liveTok(t["hs"].(int64)))
			case r < 49:
				t := tgt(aim)
				ev = kit.Ev("Abort", "t", t, "tok", liveTok(t["hs"].(int64)))
			case r < 60:
				t := tgt(aim)
				hs := t["hs"].(int64)
				c := conn()
				q := seqFor(hs, c)
				if a := active[hs]; len(a) > 0 && rng.Intn(2) == 0 {
					x := a[rng.Intn(len(a))]
					c, q = x.c, x.seq-1+int64(rng.Intn(3))
					if q < 0 {
						q = 0
					}
				}
				note(t, c, q)
				ev = kit.Ev("Unregister", "t", t, "c", c, "seq", q)
			case r < 76:
				t := tgt(aim)
				hs := t["hs"].(int64)
				items := []any{}
				for n := 1 + rng.Intn(3); n > 0; n-- {
					c := conn()
					q := seqFor(hs, c)
					if a := active[hs]; len(a) > 0 && rng.Intn(2) == 0 {
						x := a[rng.Intn(len(a))]
						c, q = x.c, x.seq+int64(rng.Intn(2))
					}
					note(t, c, q)
					items = append(items, map[string]any{"c": c, "seq": q, "seen": rng.Int63n(7)})
				}
				ev = kit.Ev("Touch", "t", t, "items", items)
			case r < 86:
				ev = kit.Ev("Expire", "now", rng.Int63n(11), "ttl", rng.Int63n(4))
			case r < 93:
				ev = kit.Ev("Lookup", "t", tgt(aim), "uids", uidList(), "via", []string{"uids", "uid"}[rng.Intn(2)])
			default:
				ev = kit.Ev("LookupGroups", "groups", []any{
					map[string]any{"t": tgt(rng.Intn(2) == 0), "uids": uidList()},
					map[string]any{"t": tgt(rng.Intn(2) == 0), "uids": uidList()}})
			}
			ok = step(ev)
		}
		// closing probes, as ordinary calls: which issued tokens are still pending, and
		// from which owner sequence on a register is no longer rejected as stale
		for _, hs := range slots {
			if !ok || accept[hs] <= 0 {
				continue
			}
			t := map[string]any{"hs": hs, "id": accept[hs]}
			for k := int64(1); k <= sut.ntok[hs] && ok; k++ {
				ok = step(kit.Ev("Abort", "t", t, "tok", k))
			}
			for c := int64(1); c <= nconn && ok; c++ {
				for q := int64(0); q < 1000 && ok; q++ {
					ev := kit.Ev("Register", "t", t, "c", c, "seq", q, "seen", int64(1))
					ok = step(ev)
					if m, _ := ev["res"].(map[string]any); m["err"] != "stale" {
						break
					}
				}
			}
		}
	}
	rep.Extra("bucket_mode_traces", bucketTraces)
	if err := rec.Close(); err != nil {
		rep.Infra("trace file: %v", err)
	}
	if err := rep.Finish(rec); err != nil {
		t.Fatal(err)
	}
}

package cluster

// Conformance harness for the leader layer of specs/MessageEvent (property C40).
// Compiled into pkg/cluster through `go test -overlay`. It starts one real single-node
// cluster (cluster.New / Start, Raft and Pebble included) and drives the exported
// Node.AppendMessageEvent. In-package access is needed for two things only (no exported
// API reaches them): dropping the leader's non-durable stream cache
// (messageEventStreamCache.resetAfterRestore, what a restore or a lost Slot authority
// does) and reading the cache / the node-owned metadata DB for the projection.

import (
	"context"
	"encoding/json"
	"errors"
	"fmt"
	"net"
	"os"
	"strings"
	"testing"
	"time"

	"github.com/WuKongIM/WuKongIM/internal/zzverif/kit"
	metadb "github.com/WuKongIM/WuKongIM/pkg/db/meta"
)

const (
	vmeChanType = int64(2)
	// signature of the known finding (see known-findings.json)
	vmeSilentFinishSig = "C40:finish-after-cache-loss-writes-completed-projection"
)

var (
	vmeMsgs     = []string{"m1", "m2"}
	vmeLaneKeys = []string{"aux", "main"}
	vmeAllKeys  = []string{"aux", "main", "__finish__"}
	vmeAbsent   = map[string]any{"ex": false, "status": "", "seq": 0, "last": "", "text": "", "reason": 0, "err": 0}
)

type vmeSUT struct {
	node  *Node
	n     int
	clock int64
	// ghost, from observation of the real cache only: acknowledged cache-only content of
	// the lane was in the cache when the cache was dropped, and no snapshot event has
	// re-established the lane since
	lost map[string]map[string]bool
	// set by apply: a finish without a real snapshot succeeded although the leader held no
	// open cached lane of the message when it was called
	finishMiss string
}

func (s *vmeSUT) begin(n int) {
	s.n = n
	s.lost = map[string]map[string]bool{"m1": {}, "m2": {}}
}

func (s *vmeSUT) channel(m string) string {
	if s.n%2 == 0 {
		return fmt.Sprintf("vlead-%d", s.n)
	}
	return fmt.Sprintf("vlead-%d-%s", s.n, m)
}
func (s *vmeSUT) msgNo(m string) string { return fmt.Sprintf("cmn-%d-%s", s.n, m) }

func vmePayload(typ, p string, r int64, nul bool, variant int64) []byte {
	snap := func() map[string]any { return map[string]any{"kind": "text", "text": p} }
	var v map[string]any
	switch typ {
	case "open":
		return nil
	case "delta":
		v = map[string]any{"kind": "text", "delta": p}
	case "snapshot":
		v = snap()
	case "close", "finish":
		v = map[string]any{"end_reason": r}
	case "error":
		v = map[string]any{"error": vmeErrText(r)}
	case "cancel":
		v = map[string]any{}
	}
	terminal := typ == "close" || typ == "error" || typ == "cancel" || typ == "finish"
	if terminal && p != "" {
		v["snapshot"] = snap()
	}
	if terminal && p == "" && nul {
		v["snapshot"] = nil // an optional field marshalled without omitempty: "snapshot":null
	}
	raw, _ := json.Marshal(v)
	if terminal && p == "" && nul && variant%2 == 0 {
		raw = []byte(strings.Replace(string(raw), `"snapshot":null`, `"snapshot" :  null `, 1))
	}
	return raw
}

func vmeErrText(r int64) string {
	if r == 0 {
		return ""
	}
	return fmt.Sprintf("E%d", r)
}

func vmeErrCode(s string) (int64, bool) {
	if s == "" {
		return 0, true
	}
	var n int64
	if _, err := fmt.Sscanf(s, "E%d", &n); err != nil {
		return 0, false
	}
	return n, true
}

func vmeText(raw []byte) string {
	if len(raw) == 0 {
		return ""
	}
	var v struct {
		Kind string `json:"kind"`
		Text string `json:"text"`
	}
	if err := json.Unmarshal(raw, &v); err != nil || v.Kind != "text" {
		return "?" + string(raw)
	}
	return v.Text
}

func vmeTerminal(status string) bool {
	return status == metadb.EventStatusClosed || status == metadb.EventStatusError || status == metadb.EventStatusCancelled
}

func (s *vmeSUT) key(m string) metadb.MessageEventMessageKey {
	return metadb.MessageEventMessageKey{ChannelID: s.channel(m), ChannelType: vmeChanType, ClientMsgNo: s.msgNo(m)}
}

// openCached returns the text of every open (non-final, non-finish) cached lane of m.
func (s *vmeSUT) openCached(m string) map[string]metadb.MessageEventState {
	out := map[string]metadb.MessageEventState{}
	for _, st := range s.node.messageEventStreamCache.states(s.key(m)) {
		if st.EventKey == "" || st.EventKey == metadb.EventKeyFinish || vmeTerminal(st.Status) {
			continue
		}
		out[st.EventKey] = st
	}
	return out
}

func (s *vmeSUT) durable(m string) ([]metadb.MessageEventState, error) {
	ctx, cancel := context.WithTimeout(context.Background(), 60*time.Second)
	defer cancel()
	route, err := s.node.RouteKey(s.channel(m))
	if err != nil {
		return nil, err
	}
	return s.node.defaultSlotMetaDB.ForHashSlot(route.HashSlot).ListMessageEventStates(ctx, s.channel(m), vmeChanType, s.msgNo(m), 50)
}

// apply performs the call described by ev and returns the observed reply; silent reports
// a finish that wrote a completed projection although lost cache-only content of a
// non-final lane was never flushed.
func (s *vmeSUT) apply(ev map[string]any) (res map[string]any, silent bool, err error) {
	switch kit.Str(ev, "a") {
	case "CacheLoss":
		for _, m := range vmeMsgs {
			for k, st := range s.openCached(m) {
				if vmeText(st.SnapshotPayload) != "" {
					s.lost[m][k] = true
				}
			}
		}
		s.node.messageEventStreamCache.resetAfterRestore()
		return map[string]any{"done": true}, false, nil
	case "LeaderAppend":
		m := kit.Str(ev, "m")
		e := kit.Map(ev, "e")
		typ, p, key := kit.Str(e, "type"), kit.Str(e, "p"), kit.Str(e, "key")
		dropped := []string{}
		s.finishMiss = ""
		openBefore := -1
		if typ == "finish" && p == "" {
			openBefore = len(s.openCached(m))
			rows, err := s.durable(m)
			if err != nil {
				return nil, false, err
			}
			final := map[string]bool{}
			for _, row := range rows {
				final[row.EventKey] = vmeTerminal(row.Status)
			}
			for _, k := range vmeLaneKeys {
				if s.lost[m][k] && !final[k] {
					dropped = append(dropped, k)
				}
			}
		}
		s.clock++
		ctx, cancel := context.WithTimeout(context.Background(), 120*time.Second)
		defer cancel()
		r, err := s.node.AppendMessageEvent(ctx, metadb.MessageEventAppend{
			ChannelID: s.channel(m), ChannelType: vmeChanType, ClientMsgNo: s.msgNo(m),
			EventID: kit.Str(e, "id"), EventKey: key, EventType: "stream." + typ,
			Visibility: metadb.VisibilityPublic, OccurredAt: 1000 + s.clock, UpdatedAt: 2000 + s.clock,
			Payload: vmePayload(typ, p, kit.Int(e, "r"), kit.Bool(e, "nul"), s.clock/2),
		})
		if errors.Is(err, ErrMessageEventStreamCacheMiss) {
			return map[string]any{"ok": false, "key": "", "seq": 0, "status": ""}, false, nil
		}
		if err != nil {
			// a rejection by the reducer / FSM itself is a reply the specification does not
			// have; anything else (timeouts, routing) is trouble of the environment
			if errors.Is(err, metadb.ErrStaleMeta) || errors.Is(err, metadb.ErrInvalidArgument) ||
				errors.Is(err, metadb.ErrNotFound) || errors.Is(err, metadb.ErrCorruptValue) {
				return map[string]any{"ok": false, "key": "refused: " + err.Error(), "seq": 0, "status": ""}, false, nil
			}
			return nil, false, fmt.Errorf("AppendMessageEvent: %w", err)
		}
		if typ == "snapshot" {
			if st, ok := s.openCached(m)[key]; ok && st.LastEventID == kit.Str(e, "id") && vmeText(st.SnapshotPayload) == p {
				s.lost[m][key] = false // the lane's complete content is cached again
			}
		}
		if openBefore == 0 {
			s.finishMiss = fmt.Sprintf("finish %s of %s (payload without a snapshot, explicit null=%v) succeeded (lane %s seq %d %s) although the leader held no open cached lane of the message: nothing was flushed, a completed projection was written",
				kit.Str(e, "id"), m, kit.Bool(e, "nul"), r.EventKey, r.MsgEventSeq, r.Status)
		}
		if typ == "finish" {
			s.lost[m] = map[string]bool{} // the stream is complete: what was dropped was dropped by this finish
		}
		return map[string]any{"ok": true, "key": r.EventKey, "seq": r.MsgEventSeq, "status": r.Status},
			typ == "finish" && len(dropped) > 0, nil
	}
	return nil, false, fmt.Errorf("unknown action %q", kit.Str(ev, "a"))
}

func (s *vmeSUT) proj() (map[string]any, string, error) {
	out := map[string]any{}
	for _, m := range vmeMsgs {
		lanes := map[string]any{}
		for _, k := range vmeAllKeys {
			lanes[k] = vmeAbsent
		}
		rows, err := s.durable(m)
		if err != nil {
			return nil, "", fmt.Errorf("ListMessageEventStates: %w", err)
		}
		for _, row := range rows {
			if _, known := lanes[row.EventKey]; !known {
				return nil, fmt.Sprintf("message %s has an unexpected durable lane %q", m, row.EventKey), nil
			}
			code, ok := vmeErrCode(row.Error)
			if !ok {
				return nil, fmt.Sprintf("message %s lane %s: unexpected error text %q", m, row.EventKey, row.Error), nil
			}
			lanes[row.EventKey] = map[string]any{"ex": true, "status": row.Status, "seq": row.LastMsgEventSeq,
				"last": row.LastEventID, "text": vmeText(row.SnapshotPayload), "reason": int64(row.EndReason), "err": code}
		}
		cached := map[string]any{}
		open := s.openCached(m)
		for _, k := range vmeLaneKeys {
			if st, ok := open[k]; ok {
				cached[k] = map[string]any{"open": true, "text": vmeText(st.SnapshotPayload)}
			} else {
				cached[k] = map[string]any{"open": false, "text": ""}
			}
		}
		out[m] = map[string]any{"lanes": lanes, "cached": cached}
	}
	return out, "", nil
}

func vmeStartNode(t *testing.T) (*Node, error) {
	dir := ""
	if st, err := os.Stat("/dev/shm"); err == nil && st.IsDir() {
		if d, err := os.MkdirTemp("/dev/shm", "verif-messageevent-node-"); err == nil {
			dir = d
			t.Cleanup(func() { _ = os.RemoveAll(d) })
		}
	}
	if dir == "" {
		dir = t.TempDir()
	}
	ln, err := net.Listen("tcp", "127.0.0.1:0")
	if err != nil {
		return nil, err
	}
	addr := ln.Addr().String()
	_ = ln.Close()
	cfg := Config{NodeID: 1, ListenAddr: addr, DataDir: dir}
	cfg.Control.ClusterID = "verif-messageevent"
	cfg.Slots.InitialSlotCount = 1
	cfg.Slots.HashSlotCount = 4
	cfg.Slots.ReplicaCount = 1
	cfg.Channel.TickInterval = time.Millisecond
	node, err := New(cfg)
	if err != nil {
		return nil, err
	}
	ctx, cancel := context.WithTimeout(context.Background(), 180*time.Second)
	defer cancel()
	if err := node.Start(ctx); err != nil {
		return nil, err
	}
	t.Cleanup(func() { _ = node.Stop(context.Background()) })
	// wait (bounded) until the single Slot has a leader and commits a write
	deadline := time.Now().Add(180 * time.Second)
	for {
		route, err := node.RouteKey("vlead-probe")
		if err == nil && route.Leader == 1 {
			pctx, pcancel := context.WithTimeout(context.Background(), 5*time.Second)
			err = node.ProbeWriteReady(pctx)
			pcancel()
			if err == nil {
				return node, nil
			}
		}
		if time.Now().After(deadline) {
			return nil, fmt.Errorf("single-node cluster not ready: %v", err)
		}
		time.Sleep(20 * time.Millisecond)
	}
}

func TestVerifMessageEventLeader(t *testing.T) {
	env, ok := kit.LoadEnv()
	if !ok {
		t.Skip("not started by the verif runner")
	}
	rep := kit.NewReport(env, "messageevent-leader")
	rec, err := kit.NewRecorder(env.TraceFile)
	if err != nil {
		t.Fatal(err)
	}
	finish := func() {
		if err := rec.Close(); err != nil {
			rep.Infra("trace file: %v", err)
		}
		if err := rep.Finish(rec); err != nil {
			t.Fatal(err)
		}
	}
	node, err := vmeStartNode(t)
	if err != nil {
		rep.Infra("start single-node cluster: %v", err)
		finish()
		return
	}
	sut := &vmeSUT{node: node}
	caseNo := 0
	silentSeen := 0
	reportSilent := func(detail string, replay any) {
		silentSeen++
		if silentSeen <= 2 {
			rep.ViolateSig("C40", "finish-fail-closed", detail, vmeSilentFinishSig, replay)
		}
	}

	// ---- fixed schedule: the minimal history of the known finding ----
	// delta "a" acknowledged from the cache; the leader loses its cache; delta "b" is
	// accepted into a fresh session; finish (no snapshot) flushes "b" only and completes
	// the stream. The property asks for a failed finish and no completed projection.
	{
		caseNo++
		sut.begin(caseNo)
		script := []map[string]any{
			kit.Ev("LeaderAppend", "m", "m1", "e", map[string]any{"id": "e1", "key": "main", "type": "delta", "p": "a", "r": 0, "nul": false}),
			kit.Ev("CacheLoss"),
			kit.Ev("LeaderAppend", "m", "m1", "e", map[string]any{"id": "e2", "key": "main", "type": "delta", "p": "b", "r": 0, "nul": false}),
			kit.Ev("LeaderAppend", "m", "m1", "e", map[string]any{"id": "e3", "key": "main", "type": "finish", "p": "", "r": 1, "nul": false}),
		}
		var last map[string]any
		silent := false
		for _, ev := range script {
			res, sl, err := sut.apply(ev)
			if err != nil {
				rep.Infra("scenario: %s: %v", kit.JSON(ev), err)
				break
			}
			ev["res"] = res
			last, silent = res, sl
		}
		if last != nil && silent && kit.Bool(last, "ok") {
			proj, _, _ := sut.proj()
			rep.Cover("finish:silent-drop")
			reportSilent("delta a (acknowledged, cache only); leader cache lost; delta b; finish without snapshot succeeded: the stream is completed with lane main = \"b\", the acknowledged delta \"a\" is gone and no error was returned",
				map[string]any{"events": script, "stored": proj})
		}
	}

	// ---- spec -> code: replay TLC behaviours ----
	behs, err := kit.LoadBehaviours(env.BehFile)
	if err != nil {
		rep.Infra("load behaviours: %v", err)
	}
replay:
	for bi, b := range behs {
		if len(b.Steps) == 0 || kit.Str(b.Steps[0].Ev, "a") != "Init" {
			rep.Infra("behaviour %d does not start with Init", bi)
			continue
		}
		caseNo++
		sut.begin(caseNo)
		for si, st := range b.Steps {
			if si > 0 {
				res, silent, err := sut.apply(st.Ev)
				rep.Cover(kit.Str(st.Ev, "a"))
				if err != nil {
					rep.Infra("behaviour %d step %d %s: %v", bi, si, kit.JSON(kit.CloneEv(st.Ev)), err)
					break replay
				}
				if d := kit.Diff(st.Ev["res"], res); d != "" {
					rep.Violate("C40", "reply", fmt.Sprintf("step %d %s: %s", si, kit.JSON(kit.CloneEv(st.Ev)), d),
						map[string]any{"behaviour": b, "step": si, "observed": res})
					break
				}
				if sut.finishMiss != "" {
					rep.Violate("C40", "finish-fail-closed", fmt.Sprintf("step %d: %s", si, sut.finishMiss), map[string]any{"behaviour": b, "step": si})
					break
				}
				if kit.Str(st.Ev, "a") == "LeaderAppend" {
					rep.Cover("leader:" + kit.Str(kit.Map(st.Ev, "e"), "type"))
					if e := kit.Map(st.Ev, "e"); kit.Bool(e, "nul") {
						rep.Cover("null-snapshot:" + kit.Str(e, "type"))
					}
					if kit.Str(kit.Map(st.Ev, "e"), "type") == "finish" {
						if kit.Bool(kit.Map(st.Ev, "res"), "ok") {
							rep.Cover("finish:ok")
						} else {
							rep.Cover("finish:cache-miss")
						}
					}
					if want := kit.Bool(st.Ev, "silent"); want != silent {
						rep.Infra("behaviour %d step %d: specification ghost says silent=%v, harness observation says %v", bi, si, want, silent)
						break
					}
				}
				if silent {
					rep.Cover("finish:silent-drop")
					reportSilent(fmt.Sprintf("step %d %s succeeded and wrote a completed projection although acknowledged cache-only content lost with the leader cache was never flushed", si, kit.JSON(kit.CloneEv(st.Ev))),
						map[string]any{"behaviour": b, "step": si})
				}
			}
			proj, bad, err := sut.proj()
			if err != nil {
				rep.Infra("behaviour %d step %d: %v", bi, si, err)
				break replay
			}
			if bad != "" {
				rep.Violate("C40", "state", fmt.Sprintf("step %d %s: %s", si, kit.JSON(kit.CloneEv(st.Ev)), bad),
					map[string]any{"behaviour": b, "step": si})
				break
			}
			if d := kit.Diff(st.St, proj); d != "" {
				rep.Violate("C40", "state", fmt.Sprintf("step %d %s: %s", si, kit.JSON(kit.CloneEv(st.Ev)), d),
					map[string]any{"behaviour": b, "step": si, "observed": proj})
				break
			}
		}
		rep.Replayed(len(b.Steps) - 1)
		if bi == 0 {
			rep.Sample(b)
		}
	}

	// ---- code -> spec: seeded random driver, trace validated by TLC ----
	rng := env.Rand()
	ids := []string{"e1", "e2", "e3", "e4", "e5", "e6", "e7", "e8"}
	types := []string{"open", "delta", "delta", "delta", "delta", "snapshot", "close", "error", "cancel", "finish", "finish"}
	toks := []string{"a", "b", "cc", "d"}
	snaps := []string{"S", "TT", "U"}
	traces := env.Pick(60, 600)
	mkE := func(id, key, typ, p string, r int, nul bool) map[string]any {
		return map[string]any{"id": id, "key": key, "type": typ, "p": p, "r": r, "nul": nul}
	}
	// Scripted traces: terminal payloads that say "snapshot": null, with and without open
	// cached lanes (acknowledged deltas lost with the cache; a leader that never saw the
	// message; a lane already final; an open cached lane).
	scripts := [][]map[string]any{
		{
			kit.Ev("LeaderAppend", "m", "m1", "e", mkE("e1", "main", "delta", "a", 0, false)),
			kit.Ev("LeaderAppend", "m", "m1", "e", mkE("e2", "main", "delta", "b", 0, false)),
			kit.Ev("CacheLoss"),
			kit.Ev("LeaderAppend", "m", "m1", "e", mkE("e3", "main", "finish", "", 3, true)),
			kit.Ev("LeaderAppend", "m", "m1", "e", mkE("e4", "main", "finish", "", 3, false)),
		},
		{
			kit.Ev("LeaderAppend", "m", "m2", "e", mkE("e1", "main", "finish", "", 1, true)),
			kit.Ev("LeaderAppend", "m", "m2", "e", mkE("e2", "main", "delta", "a", 0, false)),
			kit.Ev("LeaderAppend", "m", "m2", "e", mkE("e3", "main", "close", "", 2, true)),
			kit.Ev("LeaderAppend", "m", "m2", "e", mkE("e4", "main", "finish", "", 1, true)),
		},
		{
			kit.Ev("LeaderAppend", "m", "m1", "e", mkE("e1", "aux", "delta", "a", 0, false)),
			kit.Ev("LeaderAppend", "m", "m1", "e", mkE("e2", "main", "finish", "", 2, true)),
			kit.Ev("LeaderAppend", "m", "m1", "e", mkE("e3", "main", "finish", "", 2, true)),
		},
	}
driver:
	for tr := 0; tr < traces+len(scripts); tr++ {
		caseNo++
		sut.begin(caseNo)
		sut.node.messageEventStreamCache.resetAfterRestore()
		proj, bad, err := sut.proj()
		if err != nil || bad != "" {
			rep.Infra("driver: fresh case is not empty: %v %s", err, bad)
			break
		}
		rec.Begin(nil, proj)
		pool := ids[:3+rng.Intn(len(ids)-2)]
		var hist []map[string]any
		steps := 8 + rng.Intn(25)
		if tr < len(scripts) {
			steps = len(scripts[tr])
		}
		for i := 0; i < steps; i++ {
			var ev map[string]any
			if tr < len(scripts) {
				ev = scripts[tr][i]
			} else if rng.Intn(9) == 0 {
				ev = kit.Ev("CacheLoss")
			} else {
				typ := types[rng.Intn(len(types))]
				e := map[string]any{"id": pool[rng.Intn(len(pool))], "key": vmeLaneKeys[rng.Intn(len(vmeLaneKeys))], "type": typ, "p": "", "r": 0, "nul": false}
				switch typ {
				case "delta":
					e["p"] = toks[rng.Intn(len(toks))]
				case "snapshot":
					e["p"] = snaps[rng.Intn(len(snaps))]
				case "close", "error", "cancel", "finish":
					switch rng.Intn(5) {
					case 0:
						e["p"] = snaps[rng.Intn(len(snaps))]
					case 1, 2:
						e["nul"] = true
					}
					e["r"] = rng.Intn(4)
					if typ == "finish" {
						e["key"] = "main"
					}
				}
				ev = kit.Ev("LeaderAppend", "m", vmeMsgs[rng.Intn(len(vmeMsgs))], "e", e)
			}
			res, silent, err := sut.apply(ev)
			if err != nil {
				rep.Infra("driver: %s: %v", kit.JSON(ev), err)
				break driver
			}
			ev["res"] = res
			hist = append(hist, ev)
			if sut.finishMiss != "" {
				rep.Violate("C40", "finish-fail-closed", sut.finishMiss, map[string]any{"events": hist})
				break
			}
			if silent {
				rep.Cover("finish:silent-drop")
				reportSilent(fmt.Sprintf("%s succeeded and wrote a completed projection although acknowledged cache-only content lost with the leader cache was never flushed", kit.JSON(ev)),
					map[string]any{"events": hist})
			}
			proj, bad, err := sut.proj()
			if err != nil {
				rep.Infra("driver: %v", err)
				break driver
			}
			if bad != "" {
				rep.Violate("C40", "state", fmt.Sprintf("after %s: %s", kit.JSON(ev), bad), map[string]any{"events": hist})
				break
			}
			rec.Step(ev, proj)
			rep.Cover(kit.Str(ev, "a"))
		}
	}
	rep.Extra("silent_finishes", silentSeen)
	finish()
}

//go:build verif

// Test-scope hook of the C28 overlay harness (mapped to pkg/gateway/core/zz_verif_hook.go by
// checks/C28.json; compiled only with -tags verif through `go test -overlay`, never part of /repo).
// It touches nothing of the Server but the session object kept for one connection: the harness
// puts a wrapper in front of it whose ID() can block, because Session.ID() is the only code
// outside the package that sendExecutor.submit calls between its admission fence and the enqueue
// (asyncSendShardIndex).  No other way exists to hold a SEND there from outside the package.
package core

import "github.com/WuKongIM/WuKongIM/pkg/gateway/session"

// VerifSwapSession replaces the session object of connection (listener, connID) by wrap(original).
// Call it right after the connection was opened, before any data is fed to it.
func VerifSwapSession(s *Server, listener string, connID uint64, wrap func(session.Session) session.Session) bool {
	if s == nil || wrap == nil {
		return false
	}
	st := s.state(listener, connID)
	if st == nil || st.session == nil {
		return false
	}
	w := wrap(st.session)
	if w == nil {
		return false
	}
	st.session = w
	return true
}

// Overlay conformance harness of property C28 for the composition /repo/internal/access/gateway:
// the real pkg/gateway/core.Server drives the real Handler of this package (its OnSendBatch
// SENDACK writer and the per-frame handleSend path), whose only way in is the MessageUsecase
// port -- an in-package fake of that port decides, from the harness's plan, in which order the
// results of a batch are emitted and whether the call fails.  Compiled into the package together
// with the shared driver /verif/runner/harness/gatewaysession/gs_driver_test.go (in-package
// because the driver file must share the package with this wrapper; only exported API of the
// package is used: New, Options, MessageUsecase).
package gateway

import (
	"errors"
	"os"
	"path/filepath"
	"testing"

	"github.com/WuKongIM/WuKongIM/internal/usecase/message"
	"github.com/WuKongIM/WuKongIM/internal/zzverif/kit"
	"github.com/WuKongIM/WuKongIM/pkg/gateway/core"
	gatewaytypes "github.com/WuKongIM/WuKongIM/pkg/gateway/types"
)

// gsFakeMessages is the message use case: results in the planned order, optional failure.
type gsFakeMessages struct{ d *GsDriver }

var errGsItem = errors.New("gs: planned item error")

func (m *gsFakeMessages) SendBatchEach(items []message.SendBatchItem, emit func(int, message.SendBatchItemResult) error) error {
	its := make([]gsItem, len(items))
	for i, it := range items {
		its[i] = gsItem{m.d.NameOfSession(it.Command.SenderSessionID), int(it.Command.ClientSeq)}
	}
	plan := m.d.Plan(its)
	done := make([]bool, len(items))
	for _, pos := range plan.Order {
		if pos < 0 || pos >= len(items) || done[pos] {
			continue
		}
		done[pos] = true
		m.d.Jitter()
		res := message.SendBatchItemResult{Result: message.SendResult{MessageID: uint64(1000 + pos), MessageSeq: uint64(pos + 1), Reason: message.ReasonSuccess}}
		if m.d.ItemErr() {
			res = message.SendBatchItemResult{Err: errGsItem}
		}
		if err := emit(pos, res); err != nil {
			return err
		}
	}
	if len(plan.Order) < len(items) {
		return errGsPlanned
	}
	return nil
}

func TestVerifGatewaySession(t *testing.T) {
	env, ok := kit.LoadEnv()
	if !ok {
		t.Skip("not started by the verification runner")
	}
	rep := kit.NewReport(env, "gatewaysession-access")
	rec, err := kit.NewRecorder(env.TraceFile)
	if err != nil {
		rep.Infra("recorder: %v", err)
		_ = rep.Finish(nil)
		return
	}
	behs, err := kit.LoadBehaviours(env.BehFile)
	if err != nil {
		rep.Infra("behaviours: %v", err)
	}
	genv := &GsEnv{Seed: env.Seed + 500, Thorough: env.Thorough(), Rand: env.Rand(),
		Traces: env.Pick(40, 500), TraceOps: env.Pick(20, 30),
		// pkg/gateway/core/zz_verif_hook.go (overlay/gatewaysession/zz_verif_core_hook.go)
		SwapSession: core.VerifSwapSession,
		Inner: func(d *GsDriver, batch bool) gatewaytypes.Handler {
			h := New(Options{Messages: &gsFakeMessages{d: d}, OwnerNodeID: 1})
			if batch {
				return h
			}
			return gsFrameOnly{h}
		}}
	for _, b := range behs {
		gb := GsBehaviour{}
		for _, s := range b.Steps {
			gb.Steps = append(gb.Steps, GsStep{Ev: s.Ev, St: s.St})
		}
		genv.Behs = append(genv.Behs, gb)
	}
	// behaviours of the second sim stage (SimRace.cfg: feeds held inside sendExecutor.submit)
	if dir := os.Getenv("VERIF_BEH_DIR"); dir != "" {
		raceBehs, err := kit.LoadBehaviours(filepath.Join(dir, "beh_simrace.jsonl"))
		if err != nil {
			rep.Infra("race behaviours: %v", err)
		}
		for _, b := range raceBehs {
			gb := GsBehaviour{}
			for _, s := range b.Steps {
				gb.Steps = append(gb.Steps, GsStep{Ev: s.Ev, St: s.St})
			}
			genv.RaceBehs = append(genv.RaceBehs, gb)
		}
	}
	GsRun(genv, rec, rep)
	if err := rec.Close(); err != nil {
		rep.Infra("trace file: %v", err)
	}
	if err := rep.Finish(rec); err != nil {
		t.Fatalf("result: %v", err)
	}
}

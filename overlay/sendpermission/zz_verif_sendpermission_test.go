package message_test

// Conformance harness for specs/SendPermission (property C36). Compiled into
// internal/usecase/message through `go test -overlay`; external test package, exported
// API only: message.New with fake ports (PermissionStore, PermissionBatchStore,
// SystemUIDChecker, Submitter), App.Send (per-send path) and App.SendBatch (batch path).
//
// One case = one combination of permission facts (the `cfg` of a specification Init
// event).  A case is materialised as store contents for a sender/channel pair with names
// unique to the case, so that many cases live in one fake store and travel in one
// SendBatch call (exercising read de-duplication, plan indexes and coalescing).  Every case
// is decided by App.Send and by App.SendBatch; both must return the specification's
// decision (reason, error or not, handed to the submitter or not).
//
// A case whose facts say mix = "first" / "second" has a mate: the same sender's command to
// the same channel (same FromUID, ChannelID, ChannelType, NormalizePersonChannel, no
// deadline) from a device of the other kind (system device <-> ordinary device).  Command and
// mate travel in ONE SendBatch call in the stated order; each is also decided alone by
// App.Send, and the four decisions are compared with the specification's (the per-item reply
// of the batch must be the single-path decision of the same command under the same facts).

import (
	"context"
	"errors"
	"fmt"
	"hash/fnv"
	"math/rand"
	"os"
	"sync"
	"testing"

	"github.com/WuKongIM/WuKongIM/internal/contracts/channelmembers"
	"github.com/WuKongIM/WuKongIM/internal/usecase/message"
	"github.com/WuKongIM/WuKongIM/internal/zzverif/kit"
	metadb "github.com/WuKongIM/WuKongIM/pkg/db/meta"
	"github.com/WuKongIM/WuKongIM/pkg/protocol/channelid"
)

const spSystemDevice = "verif-system-device"

var errSPStore = errors.New("verif: injected permission store failure")

type spChKey struct {
	id  string
	typ int64
}
type spMemberKey struct {
	id  string
	typ int64
	uid string
}
type spReadKey struct {
	kind message.PermissionReadKind
	id   string
	typ  int64
	uid  string
}

// spStore is the fake authoritative permission metadata: single reads and raw-fact batches
// answer from the same maps.
type spStore struct {
	channels map[spChKey]metadb.Channel
	members  map[spMemberKey]bool
	hasAny   map[spChKey]bool
	fail     map[spReadKey]bool
	system   map[string]bool
	wrapNF   bool
}

func newSPStore() *spStore {
	return &spStore{channels: map[spChKey]metadb.Channel{}, members: map[spMemberKey]bool{}, hasAny: map[spChKey]bool{},
		fail: map[spReadKey]bool{}, system: map[string]bool{}}
}

func (s *spStore) IsSystemUID(uid string) bool { return s.system[uid] }

func (s *spStore) GetChannelForPermission(_ context.Context, id string, typ int64) (metadb.Channel, error) {
	if s.fail[spReadKey{message.PermissionReadChannel, id, typ, ""}] {
		return metadb.Channel{}, errSPStore
	}
	ch, ok := s.channels[spChKey{id, typ}]
	if !ok {
		if s.wrapNF {
			return metadb.Channel{}, fmt.Errorf("verif store: %w", metadb.ErrNotFound)
		}
		return metadb.Channel{}, metadb.ErrNotFound
	}
	return ch, nil
}

func (s *spStore) ContainsChannelSubscriber(_ context.Context, id string, typ int64, uid string) (bool, error) {
	if s.fail[spReadKey{message.PermissionReadSubscriberContains, id, typ, uid}] {
		return false, errSPStore
	}
	return s.members[spMemberKey{id, typ, uid}], nil
}

func (s *spStore) HasChannelSubscribers(_ context.Context, id string, typ int64) (bool, error) {
	if s.fail[spReadKey{message.PermissionReadSubscriberHasAny, id, typ, ""}] {
		return false, errSPStore
	}
	return s.hasAny[spChKey{id, typ}], nil
}

func (s *spStore) ReadPermissionsBatch(ctx context.Context, reads []message.PermissionRead) []message.PermissionReadResult {
	out := make([]message.PermissionReadResult, len(reads))
	for i, r := range reads {
		switch r.Kind {
		case message.PermissionReadChannel:
			ch, err := s.GetChannelForPermission(ctx, r.ChannelID, r.ChannelType)
			switch {
			case errors.Is(err, metadb.ErrNotFound):
			case err != nil:
				out[i].Err = err
			default:
				out[i].Channel, out[i].Found = ch, true
			}
		case message.PermissionReadSubscriberContains:
			out[i].Value, out[i].Err = s.ContainsChannelSubscriber(ctx, r.ChannelID, r.ChannelType, r.UID)
		case message.PermissionReadSubscriberHasAny:
			out[i].Value, out[i].Err = s.HasChannelSubscribers(ctx, r.ChannelID, r.ChannelType)
		default:
			out[i].Err = fmt.Errorf("verif store: unexpected read kind %d", r.Kind)
		}
	}
	return out
}

// spSubmitter accepts everything and remembers which commands reached it.
type spSubmitter struct {
	mu   sync.Mutex
	seen map[string]int
}

func (s *spSubmitter) note(cmd message.SendCommand) {
	s.mu.Lock()
	s.seen[cmd.ClientMsgNo]++
	s.mu.Unlock()
}

func (s *spSubmitter) Send(_ context.Context, cmd message.SendCommand) (message.SendResult, error) {
	s.note(cmd)
	return message.SendResult{MessageID: 1, MessageSeq: 1, Reason: message.ReasonSuccess}, nil
}

func (s *spSubmitter) SendBatch(items []message.SendBatchItem) []message.SendBatchItemResult {
	out := make([]message.SendBatchItemResult, len(items))
	for i, it := range items {
		s.note(it.Command)
		out[i] = message.SendBatchItemResult{Result: message.SendResult{MessageID: 1, MessageSeq: 1, Reason: message.ReasonSuccess}}
	}
	return out
}

func spReason(r message.Reason) string {
	switch r {
	case message.ReasonSuccess:
		return "success"
	case message.ReasonSystemError:
		return "system_error"
	case message.ReasonSendBan:
		return "send_ban"
	case message.ReasonDisband:
		return "disband"
	case message.ReasonBan:
		return "ban"
	case message.ReasonChannelNotExist:
		return "channel_not_exist"
	case message.ReasonInBlacklist:
		return "in_blacklist"
	case message.ReasonSubscriberNotExist:
		return "subscriber_not_exist"
	case message.ReasonNotInWhitelist:
		return "not_in_whitelist"
	case message.ReasonNotAllowSend:
		return "not_allow_send"
	}
	return fmt.Sprintf("reason_%d", r)
}

type spCase struct {
	facts map[string]any
	tag   string
	from  string // sender uid of the materialised case
	group string // group channel id of the materialised case (group cases only)
	cmd   message.SendCommand
	beh   any // the behaviour this case came from (replay artefact), nil for driver cases
	exp   any // expected Decide result (replayed behaviours only)
	send  map[string]any
	batch map[string]any
	// the mate (facts with mix first / second only): same sender and channel, other device kind
	mate      message.SendCommand
	mateSend  map[string]any
	mateBatch map[string]any
}

func (c *spCase) mix() string {
	if m := kit.Str(c.facts, "mix"); m == "first" || m == "second" {
		return m
	}
	return ""
}

// observed is the Decide result of the case as the specification shapes it.
func (c *spCase) observed() map[string]any {
	got := map[string]any{"send": c.send, "batch": c.batch}
	if c.mix() != "" {
		got["mate"] = map[string]any{"send": c.mateSend, "batch": c.mateBatch}
	}
	return got
}

func (c *spCase) commands() string {
	if c.mix() == "" {
		return spCmd(c.cmd)
	}
	return spCmd(c.cmd) + " mate " + spCmd(c.mate) + " (command " + c.mix() + " in the batch)"
}

var spTypeCodes = map[string][]uint8{"person": {1}, "group": {2}, "cs": {3}, "info": {6}, "visitors": {10}, "agent": {11}, "other": {4, 5, 7, 8, 9, 12, 200}}

func spChannel(state string, id string, typ int64) (metadb.Channel, bool) {
	ch := metadb.Channel{ChannelID: id, ChannelType: typ}
	switch state {
	case "none":
		return ch, false
	case "ban":
		ch.Ban = 1
	case "disband":
		ch.Disband = 1
	case "ban_disband":
		ch.Ban, ch.Disband = 1, 1
	}
	return ch, true
}

// spShareSender finds an earlier case of the chunk whose sender facts are the same, so that
// two cases can be two sends of one sender (their sender record is then one shared read).
func spShareSender(c *spCase, earlier []*spCase, rng *rand.Rand) string {
	f := c.facts
	if t := kit.Str(f, "type"); t == "visitors" || t == "agent" || kit.Str(f, "fail") == "sender" || rng.Intn(3) != 0 {
		return ""
	}
	for _, e := range earlier {
		g := e.facts
		if t := kit.Str(g, "type"); t == "visitors" || t == "agent" || kit.Str(g, "fail") == "sender" || e.from == "" {
			continue
		}
		if kit.Bool(f, "sysuid") == kit.Bool(g, "sysuid") && kit.Bool(f, "sysdev") == kit.Bool(g, "sysdev") &&
			kit.Str(f, "sender") == kit.Str(g, "sender") {
			return e.from
		}
	}
	return ""
}

// spShareGroup finds an earlier group case with the same group-level facts, so that two cases
// can be sends of two senders into one group (channel record and allow-list presence shared).
func spShareGroup(c *spCase, earlier []*spCase, rng *rand.Rand) string {
	f := c.facts
	bad := func(x map[string]any) bool {
		return kit.Str(x, "type") != "group" || kit.Str(x, "fail") == "target" || kit.Str(x, "fail") == "hasallow"
	}
	if bad(f) || rng.Intn(3) != 0 {
		return ""
	}
	for _, e := range earlier {
		if bad(e.facts) || e.group == "" {
			continue
		}
		taken := false // the (sender, group) pair must stay unique to this case
		for _, x := range earlier {
			taken = taken || (x.from == c.from && x.group == e.group)
		}
		if taken {
			continue
		}
		if kit.Str(f, "target") == kit.Str(e.facts, "target") && kit.Bool(f, "hasallow") == kit.Bool(e.facts, "hasallow") {
			return e.group
		}
	}
	return ""
}

// materialise writes the facts of one case into the store and builds its command.
func (c *spCase) materialise(st *spStore, k int, chunk *rand.Rand, seed int64, earlier []*spCase) error {
	f := c.facts
	// presentation choices of a case depend on its facts and the seed only, so that a case
	// replayed alone is presented as in the run that flagged it
	h := fnv.New64a()
	h.Write([]byte(kit.JSON(f)))
	rng := rand.New(rand.NewSource(seed*1000003 + int64(h.Sum64()>>1)))
	typ := kit.Str(f, "type")
	codes, ok := spTypeCodes[typ]
	if !ok {
		return fmt.Errorf("unknown channel type %q", typ)
	}
	code := codes[rng.Intn(len(codes))]
	from := fmt.Sprintf("s%d", k)
	if shared := spShareSender(c, earlier, chunk); shared != "" {
		from = shared
	}
	c.from = from
	if kit.Bool(f, "sysuid") {
		st.system[from] = true
	}
	device := fmt.Sprintf("d%d", k)
	if kit.Bool(f, "sysdev") {
		device = spSystemDevice
	}
	c.tag = fmt.Sprintf("case-%d", k)
	cmd := message.SendCommand{FromUID: from, DeviceID: device, ChannelType: code, ClientMsgNo: c.tag, Payload: []byte("x"),
		ClientSeq: uint64(k)}

	// sender's own channel record
	if sch, found := spChannel("ok", from, 1); kit.Str(f, "sender") != "none" && found {
		if kit.Str(f, "sender") == "ban" {
			sch.SendBan = 1
		}
		st.channels[spChKey{from, 1}] = sch
	}

	// target channel id and the list key of the type
	var target string
	var lists channelmembers.ChannelKey
	useLists := false
	receiver := ""
	switch typ {
	case "person":
		peer := fmt.Sprintf("p%d", k)
		receiver = peer
		target = channelid.EncodePersonChannel(from, peer)
		switch rng.Intn(3) {
		case 0:
			cmd.ChannelID, cmd.NormalizePersonChannel = peer, true
		case 1:
			cmd.ChannelID, cmd.NormalizePersonChannel = target, true
		default:
			cmd.ChannelID = target
		}
		if kit.Bool(f, "rsys") {
			st.system[peer] = true
		}
		lists, useLists = channelmembers.ChannelKey{ChannelID: peer, ChannelType: 1}, true
		if rch, found := spChannel("ok", peer, 1); kit.Str(f, "receiver") != "none" && found {
			if kit.Str(f, "receiver") == "stranger" {
				rch.AllowStranger = 1
			}
			st.channels[spChKey{peer, 1}] = rch
		}
	case "group":
		target = fmt.Sprintf("g%d", k)
		if shared := spShareGroup(c, earlier, chunk); shared != "" {
			target = shared
		}
		c.group = target
		cmd.ChannelID = target
		lists, useLists = channelmembers.ChannelKey{ChannelID: target, ChannelType: code}, true
	case "visitors":
		target = fmt.Sprintf("v%d", k)
		if kit.Bool(f, "member") {
			target = from
		}
		cmd.ChannelID = target
		lists, useLists = channelmembers.ChannelKey{ChannelID: target, ChannelType: 3}, true
	case "agent":
		switch {
		case !kit.Bool(f, "member"):
			target = channelid.EncodeAgentChannel(fmt.Sprintf("x%d", k), fmt.Sprintf("a%d", k))
		case rng.Intn(2) == 0:
			target = channelid.EncodeAgentChannel(from, fmt.Sprintf("a%d", k))
		default:
			target = channelid.EncodeAgentChannel(fmt.Sprintf("x%d", k), from)
		}
		cmd.ChannelID = target
	default:
		target = fmt.Sprintf("c%d", k)
		cmd.ChannelID = target
	}
	if tch, found := spChannel(kit.Str(f, "target"), target, int64(code)); found {
		st.channels[spChKey{target, int64(code)}] = tch
	}
	if rng.Intn(4) == 0 { // the command-channel form of the same channel
		cmd.ChannelID = channelid.ToCommandChannel(cmd.ChannelID)
	}

	var deny, allow string
	lt := int64(lists.ChannelType)
	if useLists {
		deny, allow = channelmembers.DenylistChannelID(lists), channelmembers.AllowlistChannelID(lists)
		st.members[spMemberKey{deny, lt, from}] = kit.Bool(f, "denied")
		st.members[spMemberKey{allow, lt, from}] = kit.Bool(f, "allow")
		if typ != "person" {
			st.members[spMemberKey{lists.ChannelID, lt, from}] = kit.Bool(f, "subscriber")
			st.hasAny[spChKey{allow, lt}] = kit.Bool(f, "hasallow")
		}
	}
	switch kit.Str(f, "fail") {
	case "none", "":
	case "sender":
		st.fail[spReadKey{message.PermissionReadChannel, from, 1, ""}] = true
	case "target":
		st.fail[spReadKey{message.PermissionReadChannel, target, int64(code), ""}] = true
	case "receiver":
		st.fail[spReadKey{message.PermissionReadChannel, receiver, 1, ""}] = true
	case "denied":
		st.fail[spReadKey{message.PermissionReadSubscriberContains, deny, lt, from}] = true
	case "allow":
		st.fail[spReadKey{message.PermissionReadSubscriberContains, allow, lt, from}] = true
	case "subscriber":
		st.fail[spReadKey{message.PermissionReadSubscriberContains, lists.ChannelID, lt, from}] = true
	case "hasallow":
		st.fail[spReadKey{message.PermissionReadSubscriberHasAny, allow, lt, ""}] = true
	default:
		return fmt.Errorf("unknown failing read %q", kit.Str(f, "fail"))
	}
	c.cmd = cmd
	if c.mix() != "" {
		// the mate differs in the device (hence in nothing sendPermissionScope-relevant but
		// the device) and in its per-message identity
		c.mate = cmd
		c.mate.DeviceID = spSystemDevice
		if kit.Bool(f, "sysdev") {
			c.mate.DeviceID = fmt.Sprintf("d%dm", k)
		}
		c.mate.ClientMsgNo = c.tag + "-mate"
		c.mate.ClientSeq = uint64(k) + 1<<32
	}
	return nil
}

func spOutcome(r message.SendResult, err error, sent int) map[string]any {
	out := map[string]any{"reason": spReason(r.Reason), "err": err != nil, "sent": sent == 1}
	if sent > 1 {
		out["sent"] = fmt.Sprintf("%d times", sent)
	}
	return out
}

// runChunk decides every case of the chunk (all with the same whitelist setting) through
// both paths against one store.
func spRunChunk(cases []*spCase, wl bool, base int, rng *rand.Rand, seed int64) error {
	st := newSPStore()
	st.wrapNF = rng.Intn(2) == 0
	for i, c := range cases {
		if err := c.materialise(st, base+i, rng, seed, cases[:i]); err != nil {
			return err
		}
	}
	newApp := func(sub *spSubmitter) *message.App {
		return message.New(message.Options{Submitter: sub, PermissionStore: st, PermissionBatchStore: st, SystemUIDs: st,
			PersonWhitelistEnabled: wl, SystemDeviceID: spSystemDevice})
	}
	// per-send path
	subS := &spSubmitter{seen: map[string]int{}}
	appS := newApp(subS)
	for _, c := range cases {
		if c.mix() != "" && rng.Intn(2) == 0 { // the two single sends in either order
			r, err := appS.Send(context.Background(), c.mate)
			c.mateSend = spOutcome(r, err, subS.seen[c.mate.ClientMsgNo])
		}
		r, err := appS.Send(context.Background(), c.cmd)
		c.send = spOutcome(r, err, subS.seen[c.tag])
		if c.mix() != "" && c.mateSend == nil {
			r, err := appS.Send(context.Background(), c.mate)
			c.mateSend = spOutcome(r, err, subS.seen[c.mate.ClientMsgNo])
		}
	}
	// batch path: every case once, some twice (coalesced permission groups), shuffled
	subB := &spSubmitter{seen: map[string]int{}}
	appB := newApp(subB)
	type spOwner struct {
		c    int
		mate bool
	}
	var items []message.SendBatchItem
	var owner []spOwner
	sessions := rng.Intn(2) == 0
	add := func(i int, mate bool) {
		n := 1
		if rng.Intn(5) == 0 {
			n = 2
		}
		for ; n > 0; n-- {
			it := message.SendBatchItem{Command: cases[i].cmd}
			if mate {
				it.Command = cases[i].mate
			}
			if rng.Intn(2) == 0 {
				it.Context = context.Background()
			}
			if sessions {
				it.Command.SenderNodeID, it.Command.SenderSessionID = 1, uint64(1+rng.Intn(3))
			}
			items = append(items, it)
			owner = append(owner, spOwner{i, mate})
		}
	}
	for i, c := range cases {
		add(i, false)
		if c.mix() != "" {
			add(i, true)
		}
	}
	swap := func(a, b int) { items[a], items[b] = items[b], items[a]; owner[a], owner[b] = owner[b], owner[a] }
	rng.Shuffle(len(items), swap)
	// a case with a mate: the first of the pair's items in the call is the command ("first")
	// or the mate ("second"); sometimes the two are made neighbours
	for i, c := range cases {
		if c.mix() == "" {
			continue
		}
		lead, other := -1, -1 // earliest item of the pair, earliest item of the other command
		for j, o := range owner {
			if o.c != i {
				continue
			}
			if lead < 0 {
				lead = j
			} else if other < 0 && o.mate != owner[lead].mate {
				other = j
			}
		}
		if lead < 0 || other < 0 {
			return fmt.Errorf("case %d: command and mate are not both in the batch", base+i)
		}
		if owner[lead].mate != (c.mix() == "second") {
			swap(lead, other)
		}
		if o := owner[lead+1]; rng.Intn(2) == 0 && (o.c == i || cases[o.c].mix() == "") {
			swap(other, lead+1) // neighbours; only items of this pair or of mate-less cases move
		}
	}
	results := appB.SendBatch(items)
	if len(results) != len(items) {
		return fmt.Errorf("SendBatch returned %d results for %d items", len(results), len(items))
	}
	copies := map[spOwner]int{}
	for _, o := range owner {
		copies[o]++
	}
	for j, res := range results {
		o := owner[j]
		c := cases[o.c]
		tag, slot := c.tag, &c.batch
		if o.mate {
			tag, slot = c.mate.ClientMsgNo, &c.mateBatch
		}
		sent := subB.seen[tag]
		if sent == copies[o] { // every copy of an allowed command reaches the submitter
			sent = 1
		} else if sent != 0 {
			sent = 2
		}
		out := spOutcome(res.Result, res.Err, sent)
		if *slot != nil && kit.Diff(*slot, out) != "" {
			out["reason"] = fmt.Sprintf("%v and %v for two copies of one command", (*slot)["reason"], out["reason"])
		}
		*slot = out
	}
	return nil
}

var spBools = []string{"sysuid", "sysdev", "denied", "subscriber", "hasallow", "allow", "rsys", "wl", "member"}

// spRandomFacts draws one fact combination of the specification's domain.
func spRandomFacts(rng *rand.Rand) map[string]any {
	pick := func(xs ...string) string { return xs[rng.Intn(len(xs))] }
	f := map[string]any{"type": pick("person", "person", "person", "group", "group", "group", "cs", "info", "visitors", "visitors", "agent", "other")}
	for _, b := range spBools {
		f[b] = false
	}
	f["sysuid"] = rng.Intn(5) == 0
	f["sysdev"] = rng.Intn(5) == 0
	f["sender"] = pick("none", "ok", "ok", "ban")
	f["target"] = pick("none", "ok", "ok", "ok", "ban", "disband", "ban_disband")
	f["receiver"] = "none"
	fails := []string{"sender", "target"}
	coin := func() bool { return rng.Intn(2) == 0 }
	switch f["type"] {
	case "group":
		f["denied"], f["subscriber"], f["hasallow"], f["allow"] = rng.Intn(4) == 0, rng.Intn(4) != 0, coin(), coin()
		fails = append(fails, "denied", "subscriber", "hasallow", "allow")
	case "visitors":
		f["member"] = rng.Intn(3) == 0
		f["denied"], f["subscriber"], f["hasallow"], f["allow"] = rng.Intn(4) == 0, rng.Intn(4) != 0, coin(), coin()
		fails = append(fails, "denied", "subscriber", "hasallow", "allow")
	case "agent":
		f["member"] = coin()
	case "person":
		f["denied"], f["allow"], f["rsys"], f["wl"] = rng.Intn(4) == 0, coin(), rng.Intn(5) == 0, coin()
		f["receiver"] = pick("none", "closed", "stranger")
		fails = append(fails, "denied", "allow", "receiver")
	}
	f["fail"] = "none"
	if rng.Intn(3) == 0 {
		f["fail"] = fails[rng.Intn(len(fails))]
	}
	// company in the batch: every third command travels with its mate (same sender and
	// channel, other device kind), before or after it; most of those under facts where the
	// device decides (not a system UID, sender not banned, channel not disbanded: whatever
	// the lists, the group record or a failing list read say then matters to one device only)
	f["mix"] = "none"
	if rng.Intn(3) == 0 {
		f["mix"] = pick("first", "second")
		if rng.Intn(5) != 0 {
			f["sysuid"] = false
			f["sysdev"] = coin()
			f["sender"] = pick("none", "ok")
			f["target"] = pick("none", "ok", "ok", "ban")
			if f["fail"] == "sender" || f["fail"] == "target" {
				f["fail"] = "none"
			}
			switch f["type"] {
			case "group", "visitors":
				f["denied"], f["subscriber"] = rng.Intn(3) == 0, coin()
			case "person":
				f["denied"], f["rsys"], f["wl"] = rng.Intn(3) == 0, false, rng.Intn(3) != 0
			}
		}
	}
	return f
}

func TestVerifSendPermission(t *testing.T) {
	env, ok := kit.LoadEnv()
	if !ok {
		t.Skip("not started by the verif runner")
	}
	rep := kit.NewReport(env, "sendpermission")
	rec, err := kit.NewRecorder(env.TraceFile)
	if err != nil {
		t.Fatal(err)
	}
	rng := env.Rand()
	next := 1
	// run decides the cases in chunks of random size, grouped by the whitelist option
	run := func(cases []*spCase) bool {
		byWL := map[bool][]*spCase{}
		for _, c := range cases {
			wl := kit.Bool(c.facts, "wl")
			byWL[wl] = append(byWL[wl], c)
		}
		for _, wl := range []bool{false, true} {
			list := byWL[wl]
			for len(list) > 0 {
				n := 1 + rng.Intn(12)
				if n > len(list) {
					n = len(list)
				}
				if err := spRunChunk(list[:n], wl, next, rng, env.Seed); err != nil {
					rep.Infra("%v", err)
					return false
				}
				next += n
				list = list[n:]
			}
		}
		return true
	}

	// ---- spec -> code: the decision table produced by TLC ----
	behs, err := kit.LoadBehaviours(env.BehFile)
	if err != nil {
		rep.Infra("load behaviours: %v", err)
	}
	var table []*spCase
	for bi, b := range behs {
		if len(b.Steps) != 2 || kit.Str(b.Steps[0].Ev, "a") != "Init" || kit.Str(b.Steps[1].Ev, "a") != "Decide" {
			rep.Infra("behaviour %d is not Init, Decide", bi)
			continue
		}
		table = append(table, &spCase{facts: kit.Map(b.Steps[0].Ev, "cfg"), beh: b, exp: b.Steps[1].Ev["res"]})
	}
	rng.Shuffle(len(table), func(i, j int) { table[i], table[j] = table[j], table[i] })
	if run(table) {
		for i, c := range table {
			got := c.observed()
			if d := kit.Diff(c.exp, got); d != "" {
				rep.Violate("C36", "reply", fmt.Sprintf("facts %s command %s: %s", kit.JSON(c.facts), c.commands(), d),
					map[string]any{"behaviour": c.beh, "observed": got, "command": c.commands()})
			}
			rep.Replayed(1)
			rep.Cover("Decide:" + kit.Str(c.facts, "type"))
			if m := c.mix(); m != "" {
				rep.Cover("Decide:mate-" + m)
			}
			if i == 0 {
				rep.Sample(c.beh)
			}
		}
	}

	// ---- code -> spec: seeded random facts, trace validated by TLC ----
	n := env.Pick(1500, 12000)
	driver := make([]*spCase, n)
	for i := range driver {
		driver[i] = &spCase{facts: spRandomFacts(rng)}
	}
	if run(driver) {
		for _, c := range driver {
			rec.Begin(map[string]any{"cfg": c.facts}, map[string]any{"decided": false})
			rec.Step(kit.Ev("Decide", "res", c.observed()), map[string]any{"decided": true})
			rep.Cover("Decide:" + kit.Str(c.facts, "type"))
			if m := c.mix(); m != "" {
				rep.Cover("Decide:mate-" + m)
			}
		}
	}
	// ---- optional probe outside the specification's domain (off unless VERIF_C36_MALFORMED=1):
	// a person channel id that cannot be decoded, sent with NormalizePersonChannel=false.
	// No production entry point builds such a command; the two paths are only compared with
	// each other.
	if os.Getenv("VERIF_C36_MALFORMED") == "1" {
		spMalformedProbe(rep)
	}

	if err := rec.Close(); err != nil {
		rep.Infra("trace file: %v", err)
	}
	if err := rep.Finish(rec); err != nil {
		t.Fatal(err)
	}
}

func spMalformedProbe(rep *kit.Report) {
	for i, variant := range []string{"plain", "sender_ban", "disbanded"} {
		st := newSPStore()
		from, id := fmt.Sprintf("ms%d", i), fmt.Sprintf("malformed%d", i) // no "@": not a person channel id
		switch variant {
		case "sender_ban":
			st.channels[spChKey{from, 1}] = metadb.Channel{ChannelID: from, ChannelType: 1, SendBan: 1}
		case "disbanded":
			st.channels[spChKey{id, 1}] = metadb.Channel{ChannelID: id, ChannelType: 1, Disband: 1}
		}
		cmd := message.SendCommand{FromUID: from, DeviceID: "d", ChannelID: id, ChannelType: 1, ClientMsgNo: "m", Payload: []byte("x")}
		mk := func(sub *spSubmitter) *message.App {
			return message.New(message.Options{Submitter: sub, PermissionStore: st, PermissionBatchStore: st, SystemUIDs: st, SystemDeviceID: spSystemDevice})
		}
		subS, subB := &spSubmitter{seen: map[string]int{}}, &spSubmitter{seen: map[string]int{}}
		r, err := mk(subS).Send(context.Background(), cmd)
		send := spOutcome(r, err, subS.seen["m"])
		rs := mk(subB).SendBatch([]message.SendBatchItem{{Command: cmd}})
		if len(rs) != 1 {
			rep.Infra("malformed probe: SendBatch returned %d results", len(rs))
			return
		}
		batch := spOutcome(rs[0].Result, rs[0].Err, subB.seen["m"])
		rep.Cover("MalformedProbe")
		if d := kit.Diff(send, batch); d != "" {
			rep.ViolateSig("C36", "paths", fmt.Sprintf("undecodable person channel id %q with NormalizePersonChannel=false (%s): Send returned %s, SendBatch returned %s",
				id, variant, kit.JSON(send), kit.JSON(batch)), "C36-malformed-person-channel-id",
				map[string]any{"variant": variant, "command": spCmd(cmd), "send": send, "batch": batch})
		}
	}
}

func spCmd(c message.SendCommand) string {
	return fmt.Sprintf("{from=%s device=%s channel=%s type=%d normalize=%v}", c.FromUID, c.DeviceID, c.ChannelID, c.ChannelType, c.NormalizePersonChannel)
}

package cluster_test

// Overlay part of the C10 harness: binds the "Sync" action of specs/Retention to the real
// internal/infra/cluster ChannelMessageReader.SyncMessages (message_reader.go: request mapping,
// SyncOnce filter, EndSeq filter, page cut), reading through the real
// pkg/cluster/channels.Service of the shared harness (zz_verif_retention_test.go, the generated
// copy of runner/harness/retention/retention_test.go).  Exported API only.

import (
	"context"

	infracluster "github.com/WuKongIM/WuKongIM/internal/infra/cluster"
	"github.com/WuKongIM/WuKongIM/internal/usecase/message"
	ch "github.com/WuKongIM/WuKongIM/pkg/channel"
	"github.com/WuKongIM/WuKongIM/pkg/channel/store"
	"github.com/WuKongIM/WuKongIM/pkg/cluster/channels"
)

// readNode is the node surface message_reader.go needs, backed by the real Service.
type readNode struct{ svc *channels.Service }

func (n readNode) ReadChannelCommitted(ctx context.Context, id ch.ChannelID, req store.ReadCommittedRequest) (store.ReadCommittedResult, error) {
	rs, err := n.svc.ReadCommittedBatch(ctx, []channels.CommittedRead{{ChannelID: id, Request: req}})
	if err != nil {
		return store.ReadCommittedResult{}, err
	}
	return rs[0].Read, rs[0].Err
}

func (n readNode) ReadChannelCommittedBatch(ctx context.Context, reads []channels.CommittedRead) ([]channels.CommittedReadResult, error) {
	return n.svc.ReadCommittedBatch(ctx, reads)
}

func init() {
	harnessName = "retention-sync"
	syncRead = func(svc *channels.Service, id ch.ChannelID, mode string, start, end uint64, limit int) ([]uint64, error) {
		pm := message.PullModeDown
		if mode == "up" {
			pm = message.PullModeUp
		}
		ctx, cancel := ctxCall()
		defer cancel()
		page, err := infracluster.NewChannelMessageReader(readNode{svc}).SyncMessages(ctx, message.ChannelMessageQuery{
			ChannelID: message.ChannelID{ID: id.ID, Type: id.Type}, StartSeq: start, EndSeq: end, Limit: limit, PullMode: pm})
		if err != nil {
			return nil, err
		}
		out := make([]uint64, 0, len(page.Messages))
		for _, m := range page.Messages {
			out = append(out, m.MessageSeq)
		}
		return out, nil
	}
}

package conversation_test

// Conformance harness for specs/Conversation (property C34). Compiled into
// internal/usecase/conversation through `go test -overlay`; uses exported API only
// (conversation.New with in-memory fakes for its three ports).
//
// The fakes are the trusted base. They follow the real adapters:
//   - directory: rows ordered by (activated_at desc, channel_id asc, channel_type asc),
//     resumed strictly after the cursor (pkg/db/meta ListUserChannelMembershipPage);
//   - membership mutations: absent row -> ErrNotFound, tombstone -> silently ignored,
//     read_seq / deleted_to_seq / activated_at only move forward, hide clears
//     activated_at (pkg/db/meta table_user_channel_membership.go);
//   - hydrator: one aligned result per membership; disbanded channel -> Delete,
//     unavailable Leader -> Retryable, otherwise the head numbers and, when the head has
//     an ordinary message, that message (internal/infra/cluster/conversation.go).

import (
	"context"
	"fmt"
	"sort"
	"testing"
	"time"

	"github.com/WuKongIM/WuKongIM/internal/usecase/conversation"
	"github.com/WuKongIM/WuKongIM/internal/zzverif/kit"
	metadb "github.com/WuKongIM/WuKongIM/pkg/db/meta"
)

const (
	convUID   = "u1"
	convOther = "u2"
	convType  = int64(2)
)

type convChan struct {
	lc, ret, own, lm uint64
	lmFrom           string
	avail            string
}

type convWorld struct {
	rows  map[string]*metadb.UserChannelMembership // channel id -> row of convUID
	chans map[string]*convChan
	names []string
	clock int64
	// protocol faults of the usecase towards its ports (never expected)
	portErr string
}

func (w *convWorld) now() time.Time { w.clock++; return time.Unix(0, w.clock) }

func convMessage(ch string, seq uint64, from string) *conversation.LastMessage {
	return &conversation.LastMessage{
		MessageID: uint64(len(ch))*1_000_000_007 + seq*31 + uint64(ch[len(ch)-1]), MessageSeq: seq, FromUID: from,
		ClientMsgNo: fmt.Sprintf("%s-%d", ch, seq), ServerTimestampMS: int64(seq) * 10,
		Payload: []byte(fmt.Sprintf("payload:%s:%d:%s", ch, seq, from)),
	}
}

// ---- DirectoryStore ----

func rowLess(a, b metadb.UserChannelMembershipCursor) bool {
	if a.ActivatedAt != b.ActivatedAt {
		return a.ActivatedAt > b.ActivatedAt // descending
	}
	if a.ChannelID != b.ChannelID {
		return a.ChannelID < b.ChannelID
	}
	return a.ChannelType < b.ChannelType
}

func rowCursor(r metadb.UserChannelMembership) metadb.UserChannelMembershipCursor {
	return metadb.UserChannelMembershipCursor{ActivatedAt: r.ActivatedAt, ChannelID: r.ChannelID, ChannelType: r.ChannelType}
}

func (w *convWorld) ListUserChannelMembershipPage(_ context.Context, uid string, after metadb.UserChannelMembershipCursor, limit int) ([]metadb.UserChannelMembership, metadb.UserChannelMembershipCursor, bool, error) {
	if uid != convUID {
		w.portErr = "directory asked for uid " + uid
	}
	all := make([]metadb.UserChannelMembership, 0, len(w.rows))
	for _, r := range w.rows {
		all = append(all, *r)
	}
	sort.Slice(all, func(i, j int) bool { return rowLess(rowCursor(all[i]), rowCursor(all[j])) })
	var rest []metadb.UserChannelMembership
	for _, r := range all {
		if after == (metadb.UserChannelMembershipCursor{}) || rowLess(after, rowCursor(r)) {
			rest = append(rest, r)
		}
	}
	if limit <= 0 {
		w.portErr = fmt.Sprintf("directory asked with limit %d", limit)
		limit = 1
	}
	page := rest
	if len(page) > limit {
		page = page[:limit]
	}
	next := after
	if len(page) > 0 {
		next = rowCursor(page[len(page)-1])
	}
	return page, next, len(page) == len(rest), nil
}

// ---- HeadHydrator ----

func (w *convWorld) HydrateConversationHeads(_ context.Context, uid string, ms []metadb.UserChannelMembership) ([]conversation.HydrationResult, error) {
	if uid != convUID {
		w.portErr = "hydrator asked for uid " + uid
	}
	out := make([]conversation.HydrationResult, len(ms))
	for i, m := range ms {
		out[i].Key = conversation.ConversationKey{ChannelID: m.ChannelID, ChannelType: m.ChannelType}
		c := w.chans[m.ChannelID]
		if c == nil || m.ChannelType != convType {
			out[i].Outcome = conversation.HydrationDelete
			continue
		}
		switch c.avail {
		case "gone":
			out[i].Outcome = conversation.HydrationDelete
			continue
		case "retry":
			out[i].Outcome = conversation.HydrationRetryable
			continue
		}
		out[i].LastCommittedSeq = c.lc
		out[i].RetentionThroughSeq = c.ret
		out[i].CurrentUserLastSendSeq = c.own
		if c.lm > 0 {
			out[i].Outcome = conversation.HydrationOK
			out[i].LastMessage = convMessage(m.ChannelID, c.lm, c.lmFrom)
		} else {
			out[i].Outcome = conversation.HydrationNoVisibleMessage
		}
	}
	return out, nil
}

// ---- MembershipMutationStore ----

func (w *convWorld) GetUserChannelMembership(_ context.Context, uid, channelID string, channelType int64) (metadb.UserChannelMembership, bool, error) {
	if uid != convUID || channelType != convType {
		return metadb.UserChannelMembership{}, false, nil
	}
	r := w.rows[channelID]
	if r == nil {
		return metadb.UserChannelMembership{}, false, nil
	}
	return *r, true, nil
}

func (w *convWorld) mutate(uid, channelID string, channelType int64, updatedAt int64, f func(r *metadb.UserChannelMembership) bool) error {
	if uid != convUID || channelType != convType || w.rows[channelID] == nil {
		return metadb.ErrNotFound
	}
	r := w.rows[channelID]
	if r.Tombstone {
		return nil
	}
	if f(r) && updatedAt > r.UpdatedAt {
		r.UpdatedAt = updatedAt
	}
	return nil
}

func (w *convWorld) AdvanceUserChannelMembershipReadSeq(_ context.Context, uid, channelID string, channelType int64, readSeq uint64, updatedAt int64) error {
	return w.mutate(uid, channelID, channelType, updatedAt, func(r *metadb.UserChannelMembership) bool {
		if readSeq > r.ReadSeq {
			r.ReadSeq = readSeq
			return true
		}
		return false
	})
}

func (w *convWorld) HideUserChannelMembership(_ context.Context, uid, channelID string, channelType int64, deletedToSeq uint64, updatedAt int64) error {
	return w.mutate(uid, channelID, channelType, updatedAt, func(r *metadb.UserChannelMembership) bool {
		changed := false
		if deletedToSeq > r.DeletedToSeq {
			r.DeletedToSeq = deletedToSeq
			changed = true
		}
		if r.ActivatedAt != 0 {
			r.ActivatedAt = 0
			changed = true
		}
		return changed
	})
}

func (w *convWorld) ActivateUserChannelMembership(_ context.Context, uid, channelID string, channelType int64, activatedAt, updatedAt int64) error {
	return w.mutate(uid, channelID, channelType, updatedAt, func(r *metadb.UserChannelMembership) bool {
		if activatedAt > r.ActivatedAt {
			r.ActivatedAt = activatedAt
			return true
		}
		return false
	})
}

// ---- system under test ----

type convSUT struct {
	w   *convWorld
	app *conversation.App
}

// newConvSUT loads the fakes with the rows and heads of an Init event.
func newConvSUT(names []string, rows, heads map[string]any) (*convSUT, error) {
	w := &convWorld{rows: map[string]*metadb.UserChannelMembership{}, chans: map[string]*convChan{}, names: names, clock: 1_000_000}
	for i, n := range names {
		r, h := kit.Map(rows, n), kit.Map(heads, n)
		if r == nil || h == nil {
			return nil, fmt.Errorf("Init lacks channel %s", n)
		}
		row := &metadb.UserChannelMembership{UID: convUID, ChannelID: n, ChannelType: convType,
			JoinSeq: uint64(kit.Int(r, "join")), ReadSeq: uint64(kit.Int(r, "read")), DeletedToSeq: uint64(kit.Int(r, "del")), UpdatedAt: 5}
		if kit.Int(r, "act") == 1 {
			row.ActivatedAt = int64(100 + 7*i) // distinct positive priorities below the clock
		}
		switch kit.Str(r, "st") {
		case "none":
			row = nil
		case "tomb":
			row.Tombstone, row.TombstoneAt = true, 50
			row.JoinSeq, row.ReadSeq, row.DeletedToSeq = 1, 2, 1 // a tombstone keeps its old cursors
		case "live":
		default:
			return nil, fmt.Errorf("unknown row state %q", kit.Str(r, "st"))
		}
		if row != nil {
			w.rows[n] = row
		}
		c := &convChan{lc: uint64(kit.Int(h, "lc")), ret: uint64(kit.Int(h, "ret")), own: uint64(kit.Int(h, "own")),
			lm: uint64(kit.Int(h, "lm")), avail: kit.Str(h, "avail"), lmFrom: convOther}
		if c.lm != 0 && c.lm == c.own {
			c.lmFrom = convUID
		}
		w.chans[n] = c
	}
	app := conversation.New(conversation.Options{Directory: w, Hydrator: w, MembershipMutations: w, Now: w.now})
	return &convSUT{w: w, app: app}, nil
}

func okRes(err error) map[string]any { return map[string]any{"ok": err == nil} }

// apply performs the call described by ev (its "res" is ignored) and returns the
// observed reply.
func (s *convSUT) apply(ev map[string]any) (map[string]any, error) {
	ctx := context.Background()
	cn := kit.Str(ev, "c")
	c := s.w.chans[cn]
	if c == nil {
		return nil, fmt.Errorf("unknown channel %q", cn)
	}
	switch kit.Str(ev, "a") {
	case "Send":
		c.lc++
		if kit.Bool(ev, "me") {
			c.own = c.lc
		}
		if !kit.Bool(ev, "once") {
			c.lm = c.lc
			c.lmFrom = convOther
			if kit.Bool(ev, "me") {
				c.lmFrom = convUID
			}
		}
		return map[string]any{"seq": c.lc}, nil
	case "Retain":
		if r := uint64(kit.Int(ev, "r")); r > c.ret {
			c.ret = r
		}
		return map[string]any{"ret": c.ret}, nil
	case "SetAvail":
		c.avail = kit.Str(ev, "v")
		return map[string]any{"done": true}, nil
	case "Leave":
		r := s.w.rows[cn]
		if r != nil && !r.Tombstone {
			r.Tombstone, r.TombstoneAt = true, s.w.now().UnixNano()
			return map[string]any{"done": true}, nil
		}
		return map[string]any{"done": false}, nil
	case "Join":
		r := s.w.rows[cn]
		if r == nil || r.Tombstone {
			s.w.rows[cn] = &metadb.UserChannelMembership{UID: convUID, ChannelID: cn, ChannelType: convType,
				JoinSeq: c.lc + 1, UpdatedAt: s.w.now().UnixNano()}
			return map[string]any{"done": true}, nil
		}
		return map[string]any{"done": false}, nil
	case "ClearUnread":
		return okRes(s.app.ClearUnread(ctx, conversation.ClearUnreadCommand{UID: convUID, ChannelID: cn, ChannelType: uint8(convType)})), nil
	case "SetUnread":
		return okRes(s.app.SetUnread(ctx, conversation.SetUnreadCommand{UID: convUID, ChannelID: cn, ChannelType: uint8(convType), Unread: int(kit.Int(ev, "n"))})), nil
	case "Delete":
		return okRes(s.app.DeleteConversation(ctx, conversation.DeleteConversationCommand{UID: convUID, ChannelID: cn, ChannelType: uint8(convType)})), nil
	case "Activate":
		return okRes(s.app.ActivateConversation(ctx, conversation.ActivateConversationCommand{UID: convUID, ChannelID: cn, ChannelType: uint8(convType)})), nil
	}
	return nil, fmt.Errorf("unknown action %q", kit.Str(ev, "a"))
}

// viewOf turns one List/Retry result into the per-channel projection. A returned last
// message must be the head's message, unaltered.
func (s *convSUT) viewOf(items []conversation.Conversation) (map[string]any, string) {
	out := map[string]any{}
	for _, n := range s.w.names {
		out[n] = map[string]any{"shown": false, "unread": 0, "last": 0}
	}
	seen := map[string]bool{}
	for _, it := range items {
		if _, known := s.w.chans[it.ChannelID]; !known || it.ChannelType != convType {
			return nil, fmt.Sprintf("conversation for unknown channel %s/%d", it.ChannelID, it.ChannelType)
		}
		if seen[it.ChannelID] {
			return nil, "channel " + it.ChannelID + " returned twice in one pass"
		}
		seen[it.ChannelID] = true
		last := uint64(0)
		if it.LastMessage != nil {
			last = it.LastMessage.MessageSeq
			c := s.w.chans[it.ChannelID]
			want := convMessage(it.ChannelID, c.lm, c.lmFrom)
			got := it.LastMessage
			if got.MessageSeq != want.MessageSeq || got.MessageID != want.MessageID || got.FromUID != want.FromUID ||
				got.ClientMsgNo != want.ClientMsgNo || got.ServerTimestampMS != want.ServerTimestampMS || string(got.Payload) != string(want.Payload) {
				return nil, fmt.Sprintf("channel %s: last message %+v is not the head's message %+v", it.ChannelID, *got, *want)
			}
		}
		out[it.ChannelID] = map[string]any{"shown": true, "unread": it.Unread, "last": last}
	}
	return out, ""
}

// observe asks the usecase in three ways (one page, one-row pages resumed by cursor,
// Retry of every key) and returns the projection when they agree.
func (s *convSUT) observe() (map[string]any, string, error) {
	ctx := context.Background()
	full, err := s.app.List(ctx, conversation.ListRequest{UID: convUID})
	if err != nil {
		return nil, "", fmt.Errorf("List: %w", err)
	}
	v1, bad := s.viewOf(full.Items)
	if bad != "" {
		return nil, "List: " + bad, nil
	}
	if !full.Done {
		return nil, "List: a pass over " + fmt.Sprint(len(s.w.rows)) + " rows with the default limit is not done", nil
	}
	var paged []conversation.Conversation
	cur := conversation.Cursor{}
	done := false
	for i := 0; i < len(s.w.names)+3 && !done; i++ {
		page, err := s.app.List(ctx, conversation.ListRequest{UID: convUID, Cursor: cur, Limit: 1})
		if err != nil {
			return nil, "", fmt.Errorf("List(limit 1): %w", err)
		}
		paged = append(paged, page.Items...)
		cur, done = page.NextCursor, page.Done
	}
	if !done {
		return nil, "List(limit 1): the pass never completes", nil
	}
	v2, bad := s.viewOf(paged)
	if bad != "" {
		return nil, "List(limit 1): " + bad, nil
	}
	keys := make([]conversation.ConversationKey, 0, len(s.w.names))
	for i := len(s.w.names) - 1; i >= 0; i-- {
		keys = append(keys, conversation.ConversationKey{ChannelID: s.w.names[i], ChannelType: convType})
	}
	re, err := s.app.Retry(ctx, conversation.RetryRequest{UID: convUID, Keys: keys})
	if err != nil {
		return nil, "", fmt.Errorf("Retry: %w", err)
	}
	v3, bad := s.viewOf(re.Items)
	if bad != "" {
		return nil, "Retry: " + bad, nil
	}
	if d := kit.Diff(v1, v2); d != "" {
		return nil, "List in one page and List in one-row pages disagree (spec=one page, impl=paged): " + d, nil
	}
	if d := kit.Diff(v1, v3); d != "" {
		return nil, "List and Retry disagree (spec=List, impl=Retry): " + d, nil
	}
	if s.w.portErr != "" {
		return nil, "", fmt.Errorf("port protocol: %s", s.w.portErr)
	}
	return v1, "", nil
}

// initEvent renders the fakes' contents as the rows/heads of an Init step.
func convInit(names []string, rows, heads map[string]any) map[string]any {
	return map[string]any{"rows": rows, "heads": heads}
}

func TestVerifConversation(t *testing.T) {
	env, ok := kit.LoadEnv()
	if !ok {
		t.Skip("not started by the verif runner")
	}
	rep := kit.NewReport(env, "conversation")
	rec, err := kit.NewRecorder(env.TraceFile)
	if err != nil {
		t.Fatal(err)
	}
	names := []string{"c1", "c2"}

	// ---- spec -> code: replay TLC behaviours ----
	behs, err := kit.LoadBehaviours(env.BehFile)
	if err != nil {
		rep.Infra("load behaviours: %v", err)
	}
	for bi, b := range behs {
		if len(b.Steps) == 0 || kit.Str(b.Steps[0].Ev, "a") != "Init" {
			rep.Infra("behaviour %d does not start with Init", bi)
			continue
		}
		sut, err := newConvSUT(names, kit.Map(b.Steps[0].Ev, "rows"), kit.Map(b.Steps[0].Ev, "heads"))
		if err != nil {
			rep.Infra("behaviour %d: %v", bi, err)
			continue
		}
		for si, st := range b.Steps {
			var res map[string]any
			if si > 0 {
				res, err = sut.apply(st.Ev)
				rep.Cover(kit.Str(st.Ev, "a"))
				if err != nil {
					rep.Infra("behaviour %d step %d: %v", bi, si, err)
					break
				}
				if d := kit.Diff(st.Ev["res"], res); d != "" {
					rep.Violate("C34", "reply", fmt.Sprintf("step %d %s: %s", si, kit.JSON(kit.CloneEv(st.Ev)), d),
						map[string]any{"behaviour": b, "step": si, "observed": res})
					break
				}
			}
			proj, bad, err := sut.observe()
			if err != nil {
				rep.Infra("behaviour %d step %d: %v", bi, si, err)
				break
			}
			if bad != "" {
				rep.Violate("C34", "observe", fmt.Sprintf("step %d %s: %s", si, kit.JSON(kit.CloneEv(st.Ev)), bad),
					map[string]any{"behaviour": b, "step": si})
				break
			}
			if d := kit.Diff(st.St, proj); d != "" {
				rep.Violate("C34", "state", fmt.Sprintf("step %d %s: %s", si, kit.JSON(kit.CloneEv(st.Ev)), d),
					map[string]any{"behaviour": b, "step": si, "observed": proj})
				break
			}
		}
		rep.Replayed(len(b.Steps) - 1)
		if bi == 0 {
			rep.Sample(b)
		}
	}

	// ---- code -> spec: seeded random driver, trace validated by TLC ----
	rng := env.Rand()
	traces := env.Pick(200, 2500)
	for tr := 0; tr < traces; tr++ {
		// scale of this trace's sequence numbers: small (dense boundary cases) or large
		scale := int64(8)
		switch rng.Intn(6) {
		case 0:
			scale = 60
		case 1:
			scale = 5_000_000
		}
		num := func() int64 { return rng.Int63n(scale + 1) }
		rows, heads := map[string]any{}, map[string]any{}
		for _, n := range names {
			lc := num()
			h := map[string]any{"lc": lc, "avail": "ok"}
			if rng.Intn(3) == 0 { // arbitrary head
				h["ret"], h["own"], h["lm"] = num(), num(), num()
				h["avail"] = []string{"ok", "ok", "gone", "retry"}[rng.Intn(4)]
			} else { // consistent head
				h["ret"], h["own"], h["lm"] = rng.Int63n(lc+1), rng.Int63n(lc+1), rng.Int63n(lc+1)
			}
			heads[n] = h
			switch k := rng.Intn(10); {
			case k == 0:
				rows[n] = map[string]any{"st": "none", "join": 0, "read": 0, "del": 0, "act": 0}
			case k == 1:
				rows[n] = map[string]any{"st": "tomb", "join": 0, "read": 0, "del": 0, "act": 0}
			case k < 5: // arbitrary live row
				rows[n] = map[string]any{"st": "live", "join": num(), "read": num(), "del": num(), "act": rng.Intn(2)}
			default: // plausible live row: cursors at or below the head
				rows[n] = map[string]any{"st": "live", "join": rng.Int63n(lc/2 + 2), "read": rng.Int63n(lc + 1), "del": rng.Int63n(lc/2 + 1), "act": rng.Intn(2)}
			}
		}
		sut, err := newConvSUT(names, rows, heads)
		if err != nil {
			rep.Infra("driver: %v", err)
			break
		}
		proj, bad, err := sut.observe()
		if err != nil {
			rep.Infra("driver: %v", err)
			break
		}
		if bad != "" {
			rep.Violate("C34", "observe", "initial rows/heads: "+bad, map[string]any{"rows": rows, "heads": heads})
			continue
		}
		rec.Begin(convInit(names, rows, heads), proj)
		steps := 10 + rng.Intn(30)
		var hist []map[string]any
		for i := 0; i < steps; i++ {
			cn := names[rng.Intn(len(names))]
			c := sut.w.chans[cn]
			var ev map[string]any
			switch r := rng.Intn(100); {
			case r < 30:
				ev = kit.Ev("Send", "c", cn, "me", rng.Intn(4) == 0, "once", rng.Intn(5) == 0)
			case r < 36:
				ev = kit.Ev("Retain", "c", cn, "r", rng.Int63n(int64(c.lc)+2))
			case r < 40:
				// boundary at / around the head's last message
				d := int64(c.lm) + int64(rng.Intn(3)) - 1
				if d < 0 {
					d = 0
				}
				ev = kit.Ev("Retain", "c", cn, "r", d)
			case r < 46:
				ev = kit.Ev("SetAvail", "c", cn, "v", []string{"ok", "ok", "gone", "retry"}[rng.Intn(4)])
			case r < 49:
				ev = kit.Ev("Leave", "c", cn)
			case r < 56:
				ev = kit.Ev("Join", "c", cn)
			case r < 66:
				ev = kit.Ev("ClearUnread", "c", cn)
			case r < 86:
				var n int64
				switch rng.Intn(4) {
				case 0:
					n = rng.Int63n(6)
				case 1:
					n = int64(c.lc) + int64(rng.Intn(3)) - 1
				case 2:
					n = rng.Int63n(int64(c.lc) + 2)
				default:
					n = rng.Int63n(scale*2 + 1)
				}
				if n < 0 {
					n = 0
				}
				ev = kit.Ev("SetUnread", "c", cn, "n", n)
			case r < 92:
				ev = kit.Ev("Delete", "c", cn)
			default:
				ev = kit.Ev("Activate", "c", cn)
			}
			res, err := sut.apply(ev)
			if err != nil {
				rep.Infra("driver: %v", err)
				break
			}
			ev["res"] = res
			hist = append(hist, ev)
			proj, bad, err := sut.observe()
			if err != nil {
				rep.Infra("driver: %v", err)
				break
			}
			if bad != "" {
				rep.Violate("C34", "observe", fmt.Sprintf("after %s: %s", kit.JSON(ev), bad),
					map[string]any{"rows": rows, "heads": heads, "events": hist})
				break
			}
			rec.Step(ev, proj)
			rep.Cover(kit.Str(ev, "a"))
		}
	}
	if err := rec.Close(); err != nil {
		rep.Infra("trace file: %v", err)
	}
	if err := rep.Finish(rec); err != nil {
		t.Fatal(err)
	}
}

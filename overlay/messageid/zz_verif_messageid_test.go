package app

// Conformance harness for specs/MessageID (property C30).  Compiled into internal/app
// through `go test -overlay`: nodeMessageIDs is unexported and has no exported wrapper, so
// this is an in-package harness.  It calls only newNodeMessageIDs, Next and SetFloor and
// reads the atomic floor.
//
// The allocator's generator is a concrete *snowflake.Node (not injectable).  The harness
// moves that node's clock by rewriting its private `epoch` field under the node's own
// mutex (field offsets are looked up with reflect and verified; any surprise is reported as
// infrastructure trouble).  This is used in two ways:
//   - replay (spec -> code): a generator value v of a TLC behaviour is realised as "the
//     clock is in era v" (one era = one hour), which makes the reply of every
//     non-overlapping call and the floor after it exact;
//   - clock faults (cfg.gen = "any"): concurrent histories in which the clock is set back by
//     a few milliseconds while callers are running, so that the generator repeats and
//     regresses and the allocator's CAS floor has to do its work.
//
// Concurrent histories (code -> spec): every call takes a stamp from one shared atomic
// counter before it starts and after it returned.  The property's three formulas are
// evaluated on the stamped intervals twice: by TLC (Trace.tla, on small histories and on
// sampled sub-histories of long ones -- a sub-history of a history is a history, and the
// formulas are pairwise) and by histCheck below on every history in full.

import (
	"fmt"
	"math/rand"
	"reflect"
	"runtime"
	"sort"
	"sync"
	"sync/atomic"
	"testing"
	"time"
	"unsafe"

	"github.com/WuKongIM/WuKongIM/internal/zzverif/kit"
	"github.com/bwmarrin/snowflake"
)

const (
	midEraMS    = int64(3600 * 1000) // one era of the replay clock, in milliseconds
	midTimeBits = 22                 // snowflake: id = ms<<22 | node<<12 | step
)

// ---- clock control -------------------------------------------------------------------

type midClock struct {
	mu     *sync.Mutex
	epoch  *time.Time
	epoch0 time.Time
}

func newMidClock(node *snowflake.Node) (*midClock, error) {
	t := reflect.TypeOf((*snowflake.Node)(nil)).Elem()
	fm, ok1 := t.FieldByName("mu")
	fe, ok2 := t.FieldByName("epoch")
	if !ok1 || !ok2 || fm.Type != reflect.TypeOf(sync.Mutex{}) || fe.Type != reflect.TypeOf(time.Time{}) {
		return nil, fmt.Errorf("snowflake.Node layout changed (mu/epoch not found)")
	}
	base := unsafe.Pointer(node)
	c := &midClock{mu: (*sync.Mutex)(unsafe.Add(base, fm.Offset)), epoch: (*time.Time)(unsafe.Add(base, fe.Offset))}
	c.mu.Lock()
	c.epoch0 = *c.epoch
	c.mu.Unlock()
	// self-check: one hour forward must show up in the generated timestamp
	a := node.Generate().Time()
	c.setOffset(time.Hour)
	b := node.Generate().Time()
	c.setOffset(0)
	if d := b - a; d < 3599*1000 || d > 3700*1000 {
		return nil, fmt.Errorf("clock control has no effect (delta %d ms)", d)
	}
	return c, nil
}

// setOffset makes the node's clock read real time + d.
func (c *midClock) setOffset(d time.Duration) {
	c.mu.Lock()
	*c.epoch = c.epoch0.Add(-d)
	c.mu.Unlock()
}

// shift moves the node's clock by d relative to where it is (negative = set back).
func (c *midClock) shift(d time.Duration) {
	c.mu.Lock()
	*c.epoch = c.epoch.Add(-d)
	c.mu.Unlock()
}

// ---- replay of non-overlapping behaviours (spec -> code) --------------------------------

type midReplay struct {
	ids   *nodeMessageIDs
	clk   *midClock
	ts0   int64            // timestamp (ms) of era 0
	eraID map[int64]uint64 // era -> the id of that era that was returned / became the floor
}

func newMidReplay() (*midReplay, error) {
	ids, err := newNodeMessageIDs(7)
	if err != nil {
		return nil, err
	}
	clk, err := newMidClock(ids.node)
	if err != nil {
		return nil, err
	}
	return &midReplay{ids: ids, clk: clk, ts0: ids.node.Generate().Time() - snowflake.Epoch, eraID: map[int64]uint64{}}, nil
}

func (r *midReplay) era(id uint64) int64 {
	if id == 0 {
		return 0
	}
	return (int64(id>>midTimeBits) - r.ts0) / midEraMS
}

// fence turns an abstract SetFloor argument into a concrete one: the id of that era the
// allocator already issued (or holds as floor) if there is one, else the largest id of the era.
func (r *midReplay) fence(f int64) uint64 {
	if f <= 0 {
		return 0
	}
	if id, ok := r.eraID[f]; ok {
		return id
	}
	return uint64(r.ts0+(f+1)*midEraMS-1)<<midTimeBits | (1<<midTimeBits - 1)
}

func (r *midReplay) observeFloor() int64 {
	fl := r.ids.floor.Load()
	if fl != 0 {
		r.eraID[r.era(fl)] = fl
	}
	return r.era(fl)
}

type midResult struct {
	id uint64
	ok bool
}

// run replays one behaviour.  Verdicts: a VIOLATION is reported only when the real replies
// break one of the three formulas (ids of non-overlapping calls must increase; no id at or
// below an accepted fence).  Any other disagreement with the specification (a different era,
// a rejected fence the specification accepts, a different floor) is a divergence of model and
// code, reported as infrastructure trouble, never as a violation.
func (r *midReplay) run(b kit.Behaviour, rep *kit.Report) (clean bool) {
	type running struct {
		kind     string
		f        int64
		arg      uint64
		launched bool
		done     chan midResult
	}
	var cur *running
	var maxRet, maxFence uint64
	launch := func() {
		cur.launched = true
		c := cur
		c.arg = r.fence(c.f)
		go func() {
			if c.kind == "Next" {
				c.done <- midResult{id: r.ids.Next(), ok: true}
			} else {
				c.done <- midResult{ok: r.ids.SetFloor(c.arg) == nil}
			}
		}()
	}
	await := func(c *running, what string) (midResult, bool) {
		select {
		case got := <-c.done:
			return got, true
		case <-time.After(120 * time.Second):
			rep.Infra("replay: %s did not return within 120 s", what)
			return midResult{}, false
		}
	}
	checkID := func(id uint64, si int, ev map[string]any) bool {
		switch {
		case id <= maxRet:
			rep.Violate("C30", "reply", fmt.Sprintf("step %d %s: Next returned %d (era %d) after an earlier call had returned %d (era %d): ids of non-overlapping calls must increase",
				si, kit.JSON(ev), id, r.era(id), maxRet, r.era(maxRet)), map[string]any{"behaviour": b, "step": si, "id": id, "earlier": maxRet})
			return false
		case id <= maxFence:
			rep.Violate("C30", "reply", fmt.Sprintf("step %d %s: Next returned %d (era %d) although SetFloor(%d) (era %d) had returned nil",
				si, kit.JSON(ev), id, r.era(id), maxFence, r.era(maxFence)), map[string]any{"behaviour": b, "step": si, "id": id, "fence": maxFence})
			return false
		}
		maxRet = id
		return true
	}
	for si, st := range b.Steps[1:] {
		a := kit.Str(st.Ev, "a")
		rep.Cover("replay." + a + kit.Str(st.Ev, "k"))
		diverge := func(detail string) {
			rep.Infra("replay diverged from the specification without breaking the property (the model needs review): step %d %s: %s",
				si+1, kit.JSON(kit.CloneEv(st.Ev)), detail)
		}
		switch a {
		case "Start":
			if cur != nil {
				rep.Infra("replay: behaviour with overlapping calls")
				return
			}
			cur = &running{kind: kit.Str(st.Ev, "k"), f: kit.Int(st.Ev, "f"), done: make(chan midResult, 1)}
		case "Gen":
			if cur == nil {
				rep.Infra("replay: Gen outside a call")
				return
			}
			r.clk.setOffset(time.Duration(kit.Int(st.Ev, "v")*midEraMS) * time.Millisecond)
			if !cur.launched {
				launch()
			}
		case "Load", "Cas":
		case "End":
			if cur == nil {
				rep.Infra("replay: End outside a call")
				return
			}
			if !cur.launched {
				launch()
			}
			got, ok := await(cur, "call")
			if !ok {
				return
			}
			res := kit.Map(st.Ev, "res")
			c := cur
			cur = nil
			if c.kind == "Next" {
				r.eraID[r.era(got.id)] = got.id
				if !checkID(got.id, si+1, kit.CloneEv(st.Ev)) {
					return
				}
				if want, have := kit.Int(res, "id"), r.era(got.id); want != have {
					diverge(fmt.Sprintf("Next returned an id of era %d, the specification determines era %d", have, want))
					return
				}
			} else {
				if got.ok && c.arg > maxFence {
					maxFence = c.arg
				}
				if want := kit.Bool(res, "ok"); want != got.ok {
					if got.ok {
						// The specification rejects this fence because the clock has not passed it.  The real
						// code accepted it: one more call under the same clock shows the consequence.
						id := r.ids.Next()
						if checkID(id, si+1, kit.CloneEv(st.Ev)) {
							diverge("SetFloor accepted a fence the specification rejects")
						}
					} else {
						diverge("SetFloor rejected a fence the specification accepts")
					}
					return
				}
			}
			stm, _ := st.St.(map[string]any)
			if want, have := kit.Int(stm, "floor"), r.observeFloor(); want != have {
				diverge(fmt.Sprintf("floor is in era %d, the specification determines era %d", have, want))
				return
			}
		default:
			rep.Infra("replay: unknown action %q", a)
			return
		}
	}
	if cur != nil && cur.launched {
		// the behaviour was cut inside a call: let the call finish (move the clock past everything)
		r.clk.setOffset(time.Duration(2000*midEraMS) * time.Millisecond)
		got, ok := await(cur, "trailing call")
		if !ok {
			return false
		}
		if cur.kind == "Next" && !checkID(got.id, len(b.Steps), map[string]any{"a": "End", "k": "Next"}) {
			return false
		}
	}
	return true
}

// ---- concurrent histories (code -> spec) ------------------------------------------------

type midCall struct {
	P    int    `json:"p"`
	Kind string `json:"kind"`
	F    uint64 `json:"f,omitempty"`
	ID   uint64 `json:"id,omitempty"`
	OK   bool   `json:"ok"`
	S    int64  `json:"start"`
	E    int64  `json:"end"`
}

type midHistCfg struct {
	mode   string // "mono" | "any"
	procs  int    // GOMAXPROCS (0 = leave)
	g      int    // goroutines
	k      int    // calls per goroutine
	faults int    // clock faults per history (mode "any")
	saw    int    // >0: a fault goroutine sets the clock back `saw` ms every 2*saw ms of real time (mode "any")
	setPct int    // percentage of SetFloor calls
}

// runHistory runs one concurrent history on a fresh allocator.
func runHistory(cfg midHistCfg, seed int64) ([]midCall, error) {
	ids, err := newNodeMessageIDs(7)
	if err != nil {
		return nil, err
	}
	clk, err := newMidClock(ids.node)
	if err != nil {
		return nil, err
	}
	if cfg.procs > 0 {
		defer runtime.GOMAXPROCS(runtime.GOMAXPROCS(cfg.procs))
	}
	var stamp atomic.Int64
	var recent atomic.Uint64
	var faults atomic.Int64
	faults.Store(int64(cfg.faults))
	out := make([][]midCall, cfg.g)
	var wg sync.WaitGroup
	var gate sync.WaitGroup
	gate.Add(1)
	for gi := 0; gi < cfg.g; gi++ {
		wg.Add(1)
		go func(gi int) {
			defer wg.Done()
			rng := rand.New(rand.NewSource(seed*1000 + int64(gi)))
			calls := make([]midCall, 0, cfg.k)
			faultEvery := 0
			if cfg.mode == "any" && cfg.faults > 0 {
				faultEvery = cfg.k*cfg.g/cfg.faults + 1
			}
			gate.Wait()
			for i := 0; i < cfg.k; i++ {
				if faultEvery > 0 && rng.Intn(faultEvery) == 0 && faults.Add(-1) >= 0 {
					// clock fault: mostly set the clock back 1..3 ms, sometimes forward
					d := time.Duration(1+rng.Intn(3)) * time.Millisecond
					if rng.Intn(4) == 0 {
						clk.shift(d)
					} else {
						clk.shift(-d)
					}
				}
				c := midCall{P: gi + 1}
				if rng.Intn(100) < cfg.setPct {
					c.Kind = "SetFloor"
					base := recent.Load()
					switch r := rng.Intn(10); {
					case r == 0 || base == 0:
						c.F = 0
					case r < 4:
						c.F = base // already issued
					case r < 6:
						c.F = base + uint64(1+rng.Intn(64)) // a few steps ahead
					case r < 8:
						c.F = base + uint64(1+rng.Intn(3))<<midTimeBits // 1..3 ms ahead
					default:
						c.F = base + uint64(3600*1000)<<midTimeBits // an hour ahead
					}
					c.S = stamp.Add(1)
					err := ids.SetFloor(c.F)
					c.E = stamp.Add(1)
					c.OK = err == nil
				} else {
					c.Kind = "Next"
					c.S = stamp.Add(1)
					c.ID = ids.Next()
					c.E = stamp.Add(1)
					c.OK = true
					if i%8 == 0 {
						recent.Store(c.ID)
					}
				}
				calls = append(calls, c)
			}
			out[gi] = calls
		}(gi)
	}
	stop := make(chan struct{})
	var fwg sync.WaitGroup
	if cfg.mode == "any" && cfg.saw > 0 {
		// sawtooth clock: half of the time the generator only repeats values at or below the floor
		fwg.Add(1)
		go func() {
			defer fwg.Done()
			d := time.Duration(cfg.saw) * time.Millisecond
			tick := time.NewTicker(2 * d)
			defer tick.Stop()
			for {
				select {
				case <-stop:
					return
				case <-tick.C:
					clk.shift(-d)
				}
			}
		}()
	}
	gate.Done()
	wg.Wait()
	close(stop)
	fwg.Wait()
	var all []midCall
	for _, cs := range out {
		all = append(all, cs...)
	}
	return all, nil
}

type midEvent struct {
	stamp int64
	end   bool
	call  int
}

func midEvents(calls []midCall) []midEvent {
	evs := make([]midEvent, 0, 2*len(calls))
	for i, c := range calls {
		evs = append(evs, midEvent{c.S, false, i}, midEvent{c.E, true, i})
	}
	sort.Slice(evs, func(i, j int) bool { return evs[i].stamp < evs[j].stamp })
	return evs
}

type midViolation struct {
	formula string
	call    int // the Next call whose End violates
	other   int // a call that witnesses it (-1 if unknown)
}

// histCheck evaluates the three C30 formulas exactly as Trace.tla does: sweep the events in
// stamp order, snapshot (largest returned id, largest accepted fence) at Start, check at End.
func histCheck(calls []midCall) []midViolation {
	evs := midEvents(calls)
	type snap struct {
		maxRet, maxFence       uint64
		maxRetCall, maxFenceBy int
	}
	snaps := make([]snap, len(calls))
	seen := make(map[uint64]int, len(calls))
	cur := snap{maxRetCall: -1, maxFenceBy: -1}
	var out []midViolation
	for _, e := range evs {
		c := calls[e.call]
		if !e.end {
			snaps[e.call] = cur
			continue
		}
		if c.Kind == "SetFloor" {
			if c.OK && c.F > cur.maxFence {
				cur.maxFence, cur.maxFenceBy = c.F, e.call
			}
			continue
		}
		if o, dup := seen[c.ID]; dup {
			out = append(out, midViolation{"C30_Unique", e.call, o})
		}
		seen[c.ID] = e.call
		if s := snaps[e.call]; c.ID <= s.maxRet && s.maxRetCall >= 0 {
			out = append(out, midViolation{"C30_RealTimeOrder", e.call, s.maxRetCall})
		}
		if s := snaps[e.call]; c.ID <= s.maxFence && s.maxFenceBy >= 0 {
			out = append(out, midViolation{"C30_AboveFence", e.call, s.maxFenceBy})
		}
		if c.ID > cur.maxRet {
			cur.maxRet, cur.maxRetCall = c.ID, e.call
		}
	}
	return out
}

// writeTrace logs a (sub-)history for TLC: values replaced by ranks, events in stamp order,
// each line carrying the history projection after it.
func writeTrace(rec *kit.Recorder, mode string, calls []midCall) {
	vals := map[uint64]bool{}
	for _, c := range calls {
		if c.Kind == "Next" {
			vals[c.ID] = true
		} else if c.F != 0 {
			vals[c.F] = true
		}
	}
	sorted := make([]uint64, 0, len(vals))
	for v := range vals {
		sorted = append(sorted, v)
	}
	sort.Slice(sorted, func(i, j int) bool { return sorted[i] < sorted[j] })
	rank := make(map[uint64]int64, len(sorted))
	for i, v := range sorted {
		rank[v] = int64(i + 1)
	}
	var n, sum, maxRet, maxFence int64
	seen := map[int64]bool{}
	proj := func() map[string]any {
		return map[string]any{"n": n, "sum": sum, "maxRet": maxRet, "maxFence": maxFence}
	}
	rec.Begin(map[string]any{"cfg": map[string]any{"gen": mode}}, proj())
	for _, e := range midEvents(calls) {
		c := calls[e.call]
		p := fmt.Sprintf("g%d", c.P)
		if !e.end {
			rec.Step(kit.Ev("Start", "p", p, "k", c.Kind, "f", rank[c.F]), proj())
			continue
		}
		if c.Kind == "Next" {
			id := rank[c.ID]
			if !seen[id] {
				seen[id] = true
				n++
				sum += id
			}
			if id > maxRet {
				maxRet = id
			}
			rec.Step(kit.Ev("End", "p", p, "k", "Next", "res", map[string]any{"id": id}), proj())
		} else {
			if c.OK && rank[c.F] > maxFence {
				maxFence = rank[c.F]
			}
			rec.Step(kit.Ev("End", "p", p, "k", "SetFloor", "res", map[string]any{"ok": c.OK}), proj())
		}
	}
}

// sample picks a sub-history of at most max calls that contains the given calls.
func sampleCalls(calls []midCall, must []int, max int, rng *rand.Rand) []midCall {
	if len(calls) <= max {
		return calls
	}
	keep := map[int]bool{}
	for _, i := range must {
		keep[i] = true
	}
	// a contiguous window (in start order) keeps overlapping calls together; plus scattered calls
	order := make([]int, len(calls))
	for i := range order {
		order[i] = i
	}
	sort.Slice(order, func(i, j int) bool { return calls[order[i]].S < calls[order[j]].S })
	at := rng.Intn(len(order) - max/2)
	for _, i := range order[at : at+max/2] {
		keep[i] = true
	}
	for len(keep) < max {
		keep[rng.Intn(len(calls))] = true
	}
	out := make([]midCall, 0, len(keep))
	for _, i := range order {
		if keep[i] {
			out = append(out, calls[i])
		}
	}
	return out
}

func TestVerifMessageID(t *testing.T) {
	env, ok := kit.LoadEnv()
	if !ok {
		t.Skip("not started by the verif runner")
	}
	rep := kit.NewReport(env, "messageid")
	rec, err := kit.NewRecorder(env.TraceFile)
	if err != nil {
		t.Fatal(err)
	}
	finish := func() {
		if err := rec.Close(); err != nil {
			rep.Infra("trace file: %v", err)
		}
		if err := rep.Finish(rec); err != nil {
			t.Fatal(err)
		}
	}
	if _, err := newMidReplay(); err != nil {
		rep.Infra("cannot construct the allocator with a controllable clock: %v", err)
		finish()
		return
	}

	// ---- spec -> code: replay TLC behaviours (non-overlapping calls, clock eras) ----
	behs, err := kit.LoadBehaviours(env.BehFile)
	if err != nil {
		rep.Infra("load behaviours: %v", err)
	}
	unclean := 0
	for bi, b := range behs {
		if len(b.Steps) == 0 || kit.Str(b.Steps[0].Ev, "a") != "Init" {
			rep.Infra("behaviour %d does not start with Init", bi)
			continue
		}
		r, err := newMidReplay()
		if err != nil {
			rep.Infra("replay: %v", err)
			break
		}
		if !r.run(b, rep) {
			if unclean++; unclean >= 3 {
				break // do not burn the time budget on a tree that keeps diverging
			}
		}
		rep.Replayed(len(b.Steps) - 1)
		if bi == 0 {
			rep.Sample(b)
		}
	}

	// ---- code -> spec: concurrent histories ----
	rng := env.Rand()
	ncpu := runtime.NumCPU()
	totalCalls, reported := 0, 0
	runOne := func(cfg midHistCfg, traceMax int) {
		seed := rng.Int63n(1 << 40)
		calls, err := runHistory(cfg, seed)
		if err != nil {
			rep.Infra("history: %v", err)
			return
		}
		totalCalls += len(calls)
		rep.Cover("history." + cfg.mode)
		viol := histCheck(calls)
		var must []int
		for i, v := range viol {
			if i >= 3 {
				break
			}
			must = append(must, v.call)
			if v.other >= 0 {
				must = append(must, v.other)
			}
		}
		if len(viol) > 0 && reported < 3 {
			reported++
			v := viol[0]
			wit := []midCall{calls[v.call]}
			if v.other >= 0 {
				wit = append(wit, calls[v.other])
			}
			rep.Violate("C30", "history", fmt.Sprintf("%s violated by the real allocator (%d violations in a history of %d calls; clock=%s, GOMAXPROCS=%d, %d goroutines): %s",
				v.formula, len(viol), len(calls), cfg.mode, cfg.procs, cfg.g, kit.JSON(wit)),
				map[string]any{"formula": v.formula, "calls": wit, "config": fmt.Sprintf("%+v", cfg), "seed": seed})
		}
		if traceMax > 0 {
			writeTrace(rec, cfg.mode, sampleCalls(calls, must, traceMax, rng))
		}
	}
	// small histories, logged in full
	for i, n := 0, env.Pick(60, 300); i < n; i++ {
		mode := []string{"mono", "any"}[i%2]
		cfg := midHistCfg{mode: mode, procs: []int{1, 2, 4, ncpu}[rng.Intn(4)], g: 2 + rng.Intn(7), k: 8 + rng.Intn(24),
			faults: 1 + rng.Intn(2), setPct: 10 + rng.Intn(20)}
		runOne(cfg, 400)
	}
	// long histories, checked in full by histCheck, sampled for TLC
	for i, n := 0, env.Pick(24, 72); i < n; i++ {
		mode := []string{"any", "mono", "any"}[i%3]
		cfg := midHistCfg{mode: mode, procs: []int{1, 2, 4, ncpu, 4 * ncpu}[rng.Intn(5)], g: 4 + rng.Intn(29), k: 4000,
			setPct: 1 + rng.Intn(4)}
		if i%6 == 0 {
			cfg.saw = 1 + rng.Intn(2) // sawtooth clock
		} else {
			cfg.faults = 4 + rng.Intn(8)
		}
		runOne(cfg, 240)
	}
	rep.Extra("calls_checked", totalCalls)
	finish()
}

package delivery_test

// Conformance harness for specs/AckTracker (property C32). Compiled into
// internal/runtime/delivery through `go test -overlay`; uses exported API only.

import (
	"fmt"
	"sort"
	"testing"
	"time"

	"github.com/WuKongIM/WuKongIM/internal/runtime/delivery"
	"github.com/WuKongIM/WuKongIM/internal/zzverif/kit"
)

// model session name -> (uid, session id). s1 and s2 share a tracker shard
// (32 shards, ids 1 and 33); s3 shares the uid of s1.
var ackSessions = map[string]struct {
	uid string
	sid uint64
}{"s1": {"u1", 1}, "s2": {"u2", 33}, "s3": {"u1", 2}}

type ackSUT struct {
	tr    *delivery.AckTracker
	clock int64
	toks  map[int64]delivery.AckBindToken // model token -> real token
	next  int64
	msgs  []int64
	sess  []string
}

func newAckSUT(maxPer int, sess []string, msgs []int64) *ackSUT {
	s := &ackSUT{clock: 1, toks: map[int64]delivery.AckBindToken{}, next: 1, msgs: msgs, sess: sess}
	s.tr = delivery.NewAckTracker(delivery.AckTrackerOptions{
		Now: func() int64 { return s.clock }, MaxPendingPerSession: maxPer})
	return s
}

func (s *ackSUT) pending(sn string, m, at int64) delivery.PendingRecvAck {
	id := ackSessions[sn]
	return delivery.PendingRecvAck{UID: id.uid, SessionID: id.sid, MessageID: uint64(m),
		MessageSeq: uint64(m), ChannelID: "c", ChannelType: 2, DeliveredAt: at}
}

func (s *ackSUT) issue(tok delivery.AckBindToken) int64 {
	if !tok.Valid() {
		return 0
	}
	n := s.next
	s.next++
	s.toks[n] = tok
	return n
}

func sortedMsgs(list []delivery.PendingRecvAck, sid uint64) []int64 {
	out := []int64{}
	for _, p := range list {
		if p.SessionID == sid {
			out = append(out, int64(p.MessageID))
		}
	}
	sort.Slice(out, func(i, j int) bool { return out[i] < out[j] })
	return out
}

// apply performs the call described by ev (its "res" is ignored) and returns the
// observed reply and the observed projection.
func (s *ackSUT) apply(ev map[string]any) (res map[string]any, st map[string]any, err error) {
	switch kit.Str(ev, "a") {
	case "Bind":
		r := s.tr.BindResult(s.pending(kit.Str(ev, "s"), kit.Int(ev, "m"), kit.Int(ev, "at")))
		res = map[string]any{"bound": r.Bound, "added": r.Added, "tok": s.issue(r.Token), "pending": r.PendingCount}
	case "BindBatch":
		items := kit.List(ev, "items")
		in := make([]delivery.PendingRecvAck, len(items))
		for i, it := range items {
			m := it.(map[string]any)
			in[i] = s.pending(kit.Str(m, "s"), kit.Int(m, "m"), 0)
		}
		r := s.tr.BindBatch(in)
		toks := make([]int64, len(r.Tokens))
		for i, t := range r.Tokens {
			toks[i] = s.issue(t)
		}
		res = map[string]any{"toks": toks, "bound": r.Bound, "added": r.Added, "pending": r.PendingCount}
	case "Finish":
		ok := s.tr.FinishBind(s.pending(kit.Str(ev, "s"), kit.Int(ev, "m"), 0), s.toks[kit.Int(ev, "tok")])
		res = map[string]any{"ok": ok, "pending": s.tr.PendingCount()}
	case "FinishBatch":
		items := kit.List(ev, "items")
		in := make([]delivery.PendingRecvAck, len(items))
		toks := make([]delivery.AckBindToken, len(items))
		idx := make([]int, len(items))
		for i, it := range items {
			m := it.(map[string]any)
			in[i] = s.pending(kit.Str(m, "s"), kit.Int(m, "m"), 0)
			toks[i] = s.toks[kit.Int(m, "tok")]
			idx[i] = i
		}
		n := s.tr.FinishBindBatch(in, toks, idx)
		res = map[string]any{"finished": n, "pending": s.tr.PendingCount()}
	case "Cancel":
		r := s.tr.CancelBind(s.pending(kit.Str(ev, "s"), kit.Int(ev, "m"), 0), s.toks[kit.Int(ev, "tok")])
		res = map[string]any{"canceled": r.Canceled, "removed": r.Removed, "pending": r.PendingCount}
	case "Ack":
		id := ackSessions[kit.Str(ev, "s")]
		p, ok := s.tr.Ack(delivery.Recvack{UID: id.uid, SessionID: id.sid, MessageID: uint64(kit.Int(ev, "m"))})
		if ok && (p.UID != id.uid || p.SessionID != id.sid || int64(p.MessageID) != kit.Int(ev, "m")) {
			return nil, nil, fmt.Errorf("Ack returned a different delivery: %+v", p)
		}
		res = map[string]any{"ok": ok, "pending": s.tr.PendingCount()}
	case "SessionClosed":
		id := ackSessions[kit.Str(ev, "s")]
		removed := s.tr.SessionClosed(id.uid, id.sid)
		for _, p := range removed {
			if p.UID != id.uid || p.SessionID != id.sid {
				return nil, nil, fmt.Errorf("SessionClosed removed another session's entry: %+v", p)
			}
		}
		res = map[string]any{"removed": sortedMsgs(removed, id.sid), "pending": s.tr.PendingCount()}
	case "Expire":
		removed := s.tr.Expire(time.Duration(kit.Int(ev, "ttl")) * time.Second)
		by := map[string]any{}
		for _, sn := range s.sess {
			by[sn] = sortedMsgs(removed, ackSessions[sn].sid)
		}
		res = map[string]any{"removed": by, "pending": s.tr.PendingCount()}
	case "Tick":
		s.clock++
		res = map[string]any{"pending": s.tr.PendingCount()}
	case "Reset":
		s.tr.Reset()
		res = map[string]any{"pending": s.tr.PendingCount()}
	default:
		return nil, nil, fmt.Errorf("unknown action %q", kit.Str(ev, "a"))
	}
	return res, map[string]any{"pending": s.tr.PendingCount()}, nil
}

// outstanding consumes the tracker: which deliveries does an Ack of every key find?
func (s *ackSUT) outstanding() map[string]any {
	out := map[string]any{}
	for _, sn := range s.sess {
		id := ackSessions[sn]
		found := []int64{}
		for _, m := range s.msgs {
			if _, ok := s.tr.Ack(delivery.Recvack{UID: id.uid, SessionID: id.sid, MessageID: uint64(m)}); ok {
				found = append(found, m)
			}
		}
		out[sn] = found
	}
	return out
}

func TestVerifAckTracker(t *testing.T) {
	env, ok := kit.LoadEnv()
	if !ok {
		t.Skip("not started by the verif runner")
	}
	rep := kit.NewReport(env, "acktracker")
	rec, err := kit.NewRecorder(env.TraceFile)
	if err != nil {
		t.Fatal(err)
	}

	// ---- spec -> code: replay TLC behaviours ----
	behs, err := kit.LoadBehaviours(env.BehFile)
	if err != nil {
		rep.Infra("load behaviours: %v", err)
	}
	for bi, b := range behs {
		if len(b.Steps) == 0 || kit.Str(b.Steps[0].Ev, "a") != "Init" {
			rep.Infra("behaviour %d does not start with Init", bi)
			continue
		}
		cfg := kit.Map(b.Steps[0].Ev, "cfg")
		sut := newAckSUT(int(kit.Int(cfg, "maxPer")), []string{"s1", "s2"}, []int64{1, 2})
		bad := false
		for si, st := range b.Steps[1:] {
			res, proj, err := sut.apply(st.Ev)
			rep.Cover(kit.Str(st.Ev, "a"))
			if err != nil {
				rep.Violate("C32", "reply", err.Error(), map[string]any{"behaviour": b, "step": si + 1})
				bad = true
				break
			}
			if d := kit.Diff(st.Ev["res"], res); d != "" {
				rep.Violate("C32", "reply", fmt.Sprintf("step %d %s: %s", si+1, kit.JSON(kit.CloneEv(st.Ev)), d),
					map[string]any{"behaviour": b, "step": si + 1, "observed": res})
				bad = true
				break
			}
			if d := kit.Diff(st.St, proj); d != "" {
				rep.Violate("C32", "state", fmt.Sprintf("step %d: %s", si+1, d),
					map[string]any{"behaviour": b, "step": si + 1, "observed": proj})
				bad = true
				break
			}
		}
		if !bad && b.Final != nil {
			if d := kit.Diff(b.Final, sut.outstanding()); d != "" {
				rep.Violate("C32", "final", "outstanding deliveries at the end: "+d, map[string]any{"behaviour": b})
			}
		}
		rep.Replayed(len(b.Steps) - 1)
		if bi == 0 {
			rep.Sample(b)
		}
	}

	// ---- code -> spec: seeded random driver, trace validated by TLC ----
	rng := env.Rand()
	sess := []string{"s1", "s2", "s3"}
	msgs := []int64{1, 2, 3}
	traces := env.Pick(150, 2000)
	for tr := 0; tr < traces; tr++ {
		maxPer := []int{0, 1, 2}[rng.Intn(3)]
		sut := newAckSUT(maxPer, sess, msgs)
		rec.Begin(map[string]any{"cfg": map[string]any{"maxPer": maxPer}}, map[string]any{"pending": 0})
		steps := 10 + rng.Intn(30)
		hotS, hotM := sess[rng.Intn(len(sess))], msgs[rng.Intn(len(msgs))]
		for i := 0; i < steps; i++ {
			s := func() string { return sess[rng.Intn(len(sess))] }
			m := func() int64 { return msgs[rng.Intn(len(msgs))] }
			tok := func() int64 {
				if sut.next <= 1 {
					return 1
				}
				return 1 + rng.Int63n(sut.next-1)
			}
			var ev map[string]any
			// hot key: most binds/cancels/finishes of a trace hit one key so that several attempts overlap
			if rng.Intn(3) > 0 {
				hs, hm := hotS, hotM
				s = func() string { return hs }
				m = func() int64 { return hm }
			}
			switch r := rng.Intn(100); {
			case r < 25:
				at := int64(0)
				if rng.Intn(4) == 0 && sut.clock > 1 {
					at = 1 + rng.Int63n(sut.clock)
				}
				ev = kit.Ev("Bind", "s", s(), "m", m(), "at", at)
			case r < 33:
				ev = kit.Ev("BindBatch", "items", []any{map[string]any{"s": s(), "m": m()}, map[string]any{"s": s(), "m": m()}})
			case r < 48:
				ev = kit.Ev("Finish", "s", s(), "m", m(), "tok", tok())
			case r < 54:
				ev = kit.Ev("FinishBatch", "items", []any{
					map[string]any{"s": s(), "m": m(), "tok": tok()}, map[string]any{"s": s(), "m": m(), "tok": tok()}})
			case r < 68:
				ev = kit.Ev("Cancel", "s", s(), "m", m(), "tok", tok())
			case r < 78:
				ev = kit.Ev("Ack", "s", s(), "m", m())
			case r < 83:
				ev = kit.Ev("SessionClosed", "s", s())
			case r < 91:
				ev = kit.Ev("Expire", "ttl", rng.Intn(4))
			case r < 99:
				ev = kit.Ev("Tick")
			default:
				ev = kit.Ev("Reset")
			}
			res, proj, err := sut.apply(ev)
			if err != nil {
				rep.Violate("C32", "reply", err.Error(), map[string]any{"event": ev})
				break
			}
			ev["res"] = res
			rec.Step(ev, proj)
			rep.Cover(kit.Str(ev, "a"))
		}
	}
	if err := rec.Close(); err != nil {
		rep.Infra("trace file: %v", err)
	}
	if err := rep.Finish(rec); err != nil {
		t.Fatal(err)
	}
}

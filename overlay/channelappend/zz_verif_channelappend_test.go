package channelappend_test

// Conformance harness for specs/ChannelAppend (properties C29 and C41).  Compiled into
// internal/runtime/channelappend through `go test -overlay` as an EXTERNAL test package: it
// uses only the exported API (New, Options, Group.Start/SubmitLocal/Stop, Future.Wait,
// NewRouter, Router.SendBatch) and its own fakes of the package's ports:
//
//   - vAppender + vIdem: the Appender and the IdempotencyStore.  Together they ARE the
//     specification's `log` (one record list and one idempotency index per channel, written
//     in Go from the operators Conflict / Stored / LookupOf of ChannelAppend.tla);
//   - vIDs (MessageIDAllocator), vEffects (PersistAfterEnqueuer), vResolver (AuthorityResolver),
//     vObserver (AppendObserver + WriterPressureObserver, used for quiescence waits only).
//
// Method A (spec -> code): every behaviour TLC printed from Sim.tla is replayed with the fakes in
// GATED mode: each AppendBatch / EnqueuePersistAfter call parks until the driver answers it the
// way the behaviour says; after every step the observable state (item results, the log, finished
// effects, Stop returns) is compared with the specification's.  The scripted scenarios of Sim.tla
// (caller commands only; every reply and observation is computed by TLC, sim stage "scen", read
// from VERIF_BEH_DIR/beh_scen.jsonl) are replayed first, then the seeded random schedules.
//
// Two environment steps of the specification are driven through the ports as well: CancelItem (the
// submitter's SendBatchItem.Context of an item is cancelled while its request is parked at the
// Appender) and Reclaim (with WriterIdleRetention = 1ns in half of the schedules, a send to a fresh
// auxiliary channel of the shard -- answered by the fakes at once, kept out of every record --
// makes the shard run its idle-writer cleanup; the specification allows it to drop only writers
// that own nothing, so a writer dropped with an append in flight shows up as a request the
// specification does not issue / as sequences out of submission order).
//
// Method B (code -> spec): a seeded driver runs several goroutines of SubmitLocal / Router.SendBatch
// traffic over several channels (retries with the same and with a changed payload, duplicates
// inside a batch, random append failures and latencies, Stop with short and long deadlines at
// random points, a second Stop) with the fakes in RECORDING mode; every event gets one global
// sequence number; TLC validates the histories against Trace.tla.  The recording Appender also
// cancels item contexts while it refuses a request (event Cancel), and a third of the histories run
// with WriterIdleRetention = 2 ms, storage stalls of 8 ms and a prober sending to fresh sibling
// channels of the single shard (all SubmitLocal calls of such a history under one harness lock).

import (
	"context"
	"errors"
	"fmt"
	"hash/fnv"
	"math/rand"
	"os"
	"runtime"
	"sort"
	"strconv"
	"strings"
	"sync"
	"sync/atomic"
	"testing"
	"time"

	ca "github.com/WuKongIM/WuKongIM/internal/runtime/channelappend"
	"github.com/WuKongIM/WuKongIM/internal/zzverif/kit"
)

const (
	vNode     = uint64(1)
	vChanType = uint8(2)
	// A wait for something the real code does by itself (a few goroutine hand-offs).  It is
	// only ever exceeded when that step does not happen at all.
	vStepWait  = 25 * time.Second
	vStuckWait = 45 * time.Second
)

// ---- items ----------------------------------------------------------------------------------

type vItem struct {
	ID  int // tag carried through the pipeline in SendCommand.Topic
	C   int
	K   int // 0 = no client message number
	P   int
	Adm bool
}

// Channels from vAuxChan up are not channels of the specification: a send to a fresh one is how
// the harness makes the shard run its idle-writer cleanup (action Reclaim).  The fakes answer
// them at once and keep them out of every record.
const vAuxChan = 100

func chanName(c int) string { return "c" + strconv.Itoa(c) }
func chanOf(name string) int {
	n, _ := strconv.Atoi(strings.TrimPrefix(name, "c"))
	return n
}
func tagOfTopic(topic string) int {
	n, err := strconv.Atoi(strings.TrimPrefix(topic, "i"))
	if err != nil || !strings.HasPrefix(topic, "i") {
		return -1
	}
	return n
}
func keyName(k int) string {
	if k == 0 {
		return ""
	}
	return "k" + strconv.Itoa(k)
}
func payload(p int) []byte { return []byte("p" + strconv.Itoa(p)) }

func vTarget(c int) ca.AuthorityTarget {
	return ca.AuthorityTarget{ChannelID: ca.ChannelID{ID: chanName(c), Type: vChanType}, LeaderNodeID: vNode, Epoch: 1, LeaderEpoch: 1}
}

func (it vItem) send() ca.SendBatchItem { return it.sendCtx(context.Background()) }

func (it vItem) sendCtx(ctx context.Context) ca.SendBatchItem {
	return ca.SendBatchItem{Context: ctx, Command: ca.SendCommand{
		FromUID: "u1", ClientMsgNo: keyName(it.K), ChannelID: chanName(it.C), ChannelType: vChanType,
		Payload: payload(it.P), Topic: "i" + strconv.Itoa(it.ID)}}
}

// ---- events -----------------------------------------------------------------------------------

type vEvent struct {
	seq int64
	ev  map[string]any
}

type vRec struct {
	on   bool
	ctr  atomic.Int64
	mu   sync.Mutex
	evs  []vEvent
	next map[string]int
}

func (r *vRec) stamp() int64 { return r.ctr.Add(1) }
func (r *vRec) put(seq int64, ev map[string]any) {
	if !r.on {
		return
	}
	r.mu.Lock()
	r.evs = append(r.evs, vEvent{seq, ev})
	r.mu.Unlock()
}
func (r *vRec) now(ev map[string]any) { r.put(r.stamp(), ev) }

// ---- the log: Appender + idempotency store ----------------------------------------------------

type vRecord struct {
	Mid uint64 // real message id
	Tag int    // owner item
	K   string
	P   string
	Att int
}

type vChanLog struct {
	mu   sync.Mutex
	recs []vRecord
	idx  map[string]int // key -> position (1-based)
}

type vOutcome struct {
	kind string // "", "failBefore", "failAfter"
}

type vCall struct {
	n       int
	c       int
	att     int
	tags    []int
	req     ca.AppendBatchRequest
	ctx     context.Context
	release chan vOutcome
	out     string // decided outcome
	seqs    []uint64
	claimed bool
	ended   bool
}

type vLookup struct {
	c   int
	k   string
	p   string
	hit bool
	tag int
	seq uint64
}

type vAppender struct {
	rec   *vRec
	gated bool
	rng   func(n int) int // recording mode: seeded choices (mutex protected by caller)
	failP int             // recording mode: percentage of injected failures
	lat   int             // recording mode: latency class
	hold  time.Duration   // recording mode: some requests are held this long inside the store (0 = never)
	// recording mode: item tag -> context.CancelFunc of the item's SendBatchItem.Context; a request
	// that is about to be refused cancels some of them (the submitter gives up during the failing call)
	cancels sync.Map

	mu      sync.Mutex
	cond    *sync.Cond
	logs    map[int]*vChanLog
	calls   []*vCall
	lookups []vLookup
	open    int // calls inside AppendBatch / LookupSend / effect
	shut    bool
}

func newAppender(rec *vRec, gated bool) *vAppender {
	a := &vAppender{rec: rec, gated: gated, logs: map[int]*vChanLog{}}
	a.cond = sync.NewCond(&a.mu)
	return a
}

func (a *vAppender) logOf(c int) *vChanLog {
	a.mu.Lock()
	defer a.mu.Unlock()
	l := a.logs[c]
	if l == nil {
		l = &vChanLog{idx: map[string]int{}}
		a.logs[c] = l
	}
	return l
}

func msgKey(m ca.Message) string {
	if m.FromUID == "" || m.ClientMsgNo == "" {
		return ""
	}
	return m.FromUID + "/" + m.ClientMsgNo
}

// conflictLocked: ChannelAppend.tla Conflict(c, tags)
func (l *vChanLog) conflictLocked(msgs []ca.Message) bool {
	seen := map[string]bool{}
	for _, m := range msgs {
		k := msgKey(m)
		if k == "" {
			continue
		}
		if _, ok := l.idx[k]; ok || seen[k] {
			return true
		}
		seen[k] = true
	}
	return false
}

// storeLocked: ChannelAppend.tla Stored(c, tags, att)
func (l *vChanLog) storeLocked(msgs []ca.Message, att int) []uint64 {
	seqs := make([]uint64, len(msgs))
	for i, m := range msgs {
		l.recs = append(l.recs, vRecord{Mid: m.MessageID, Tag: tagOfTopic(m.Topic), K: msgKey(m), P: string(m.Payload), Att: att})
		seqs[i] = uint64(len(l.recs))
		if k := msgKey(m); k != "" {
			l.idx[k] = len(l.recs)
		}
	}
	return seqs
}

func (a *vAppender) enter() {
	a.mu.Lock()
	a.open++
	a.mu.Unlock()
}
func (a *vAppender) leave() {
	a.mu.Lock()
	a.open--
	a.cond.Broadcast()
	a.mu.Unlock()
}

func (a *vAppender) AppendBatch(ctx context.Context, req ca.AppendBatchRequest) (ca.AppendBatchResult, error) {
	c := chanOf(req.ChannelID.ID)
	if c >= vAuxChan {
		l := a.logOf(c)
		l.mu.Lock()
		seqs := l.storeLocked(req.Messages, req.Attempt)
		l.mu.Unlock()
		res := ca.AppendBatchResult{Items: make([]ca.AppendBatchItemResult, len(req.Messages))}
		for i, m := range req.Messages {
			res.Items[i] = ca.AppendBatchItemResult{MessageID: m.MessageID, MessageSeq: seqs[i]}
		}
		return res, nil
	}
	a.enter()
	defer a.leave()
	call := &vCall{c: c, att: req.Attempt, req: req, ctx: ctx, release: make(chan vOutcome, 1)}
	for _, m := range req.Messages {
		call.tags = append(call.tags, tagOfTopic(m.Topic))
	}
	a.mu.Lock()
	call.n = len(a.calls) + 1
	a.calls = append(a.calls, call)
	shut := a.shut
	a.cond.Broadcast()
	a.mu.Unlock()
	a.rec.now(kit.Ev("AppendStart", "c", c, "n", call.n, "att", call.att, "tags", call.tags))

	out := vOutcome{}
	if a.gated && !shut {
		select {
		case out = <-call.release:
		case <-ctx.Done():
			a.finish(call, "ctx", nil)
			return ca.AppendBatchResult{}, ctx.Err()
		}
	} else if !a.gated {
		a.perturb()
		if a.hold > 0 && a.rng(6) == 0 {
			time.Sleep(a.hold) // a storage stall, several times WriterIdleRetention
		}
		if a.failP > 0 && a.rng(100) < a.failP {
			if a.rng(2) == 0 {
				out.kind = "failBefore"
			} else {
				out.kind = "failAfter"
			}
		}
		if ctx.Err() != nil {
			a.finish(call, "ctx", nil)
			return ca.AppendBatchResult{}, ctx.Err()
		}
	} else {
		out.kind = "failBefore"
	}

	l := a.logOf(c)
	l.mu.Lock()
	cf := l.conflictLocked(req.Messages)
	keyless := false
	for _, m := range req.Messages {
		if msgKey(m) == "" {
			keyless = true
		}
	}
	var seqs []uint64
	kind := out.kind
	switch {
	case kind == "failBefore":
	case kind == "failAfter" && !cf && !keyless:
		seqs = l.storeLocked(req.Messages, req.Attempt)
	case cf:
		kind = "conflict"
	default:
		kind = "ok"
		seqs = l.storeLocked(req.Messages, req.Attempt)
	}
	if !a.gated && kind != "ok" && req.Attempt == 1 {
		for _, tag := range call.tags {
			if cancel, ok := a.cancels.Load(tag); ok && a.rng(2) == 0 {
				a.rec.now(kit.Ev("Cancel", "i", tag)) // recorded before it takes effect
				cancel.(context.CancelFunc)()
			}
		}
	}
	a.finish(call, kind, seqs) // inside the log's critical section: file order = log order
	l.mu.Unlock()
	if !a.gated {
		a.perturb()
	}
	if kind != "ok" {
		return ca.AppendBatchResult{}, fmt.Errorf("%w: verif %s", ca.ErrAppendFailed, kind)
	}
	res := ca.AppendBatchResult{Items: make([]ca.AppendBatchItemResult, len(req.Messages))}
	for i, m := range req.Messages {
		res.Items[i] = ca.AppendBatchItemResult{MessageID: m.MessageID, MessageSeq: seqs[i]}
	}
	return res, nil
}

func (a *vAppender) finish(call *vCall, kind string, seqs []uint64) {
	a.mu.Lock()
	call.out, call.seqs, call.ended = kind, seqs, true
	a.cond.Broadcast()
	a.mu.Unlock()
	a.rec.now(kit.Ev("AppendEnd", "c", call.c, "n", call.n, "att", call.att, "out", kind))
}

func (a *vAppender) perturb() {
	switch a.lat {
	case 0:
	case 1:
		if a.rng(2) == 0 {
			runtime.Gosched()
		}
	default:
		switch a.rng(6) {
		case 0:
			time.Sleep(time.Duration(a.rng(300)) * time.Microsecond)
		case 1:
			runtime.Gosched()
		}
	}
}

// LookupSend: ChannelAppend.tla LookupOf(c, k, p) with the payload-hash check of
// internal/infra/cluster/idempotency.go.
func (a *vAppender) LookupSend(ctx context.Context, q ca.IdempotencyQuery) (ca.SendResult, bool, error) {
	a.enter()
	defer a.leave()
	if q.FromUID == "" || q.ClientMsgNo == "" || q.ChannelID == "" || q.ChannelType == 0 {
		return ca.SendResult{}, false, nil
	}
	if !a.gated {
		a.perturb()
	}
	c := chanOf(q.ChannelID)
	l := a.logOf(c)
	l.mu.Lock()
	lk := vLookup{c: c, k: q.FromUID + "/" + q.ClientMsgNo}
	var res ca.SendResult
	if pos, ok := l.idx[lk.k]; ok {
		r := l.recs[pos-1]
		h := fnv.New64a()
		h.Write([]byte(r.P))
		lk.p = r.P
		if q.PayloadHash == 0 || h.Sum64() == q.PayloadHash {
			lk.hit, lk.tag, lk.seq = true, r.Tag, uint64(pos)
			res = ca.SendResult{MessageID: r.Mid, MessageSeq: uint64(pos), Reason: ca.ReasonSuccess}
		}
	}
	a.mu.Lock()
	a.lookups = append(a.lookups, lk)
	a.cond.Broadcast()
	a.mu.Unlock()
	// p: the payload asked about is identified by its hash only; report the number whose hash it is
	ans := map[string]any{"t": "miss", "mid": 0, "seq": 0}
	if lk.hit {
		ans = map[string]any{"t": "ok", "mid": lk.tag, "seq": int(lk.seq)}
	}
	a.rec.now(kit.Ev("Lookup", "c", c, "k", keyNum(q.ClientMsgNo), "p", payOfHash(q.PayloadHash), "res", ans))
	l.mu.Unlock()
	return res, lk.hit, nil
}

func (a *vAppender) callList() string {
	a.mu.Lock()
	defer a.mu.Unlock()
	var out []string
	for _, c := range a.calls {
		st := "parked"
		if c.ended {
			st = c.out
		}
		out = append(out, fmt.Sprintf("c%d%v/att%d:%s", c.c, c.tags, c.att, st))
	}
	return strings.Join(out, " ")
}

// snapshot of a channel log as the specification prints it
func (a *vAppender) logProj(c int) []any {
	l := a.logOf(c)
	l.mu.Lock()
	defer l.mu.Unlock()
	out := make([]any, 0, len(l.recs))
	for _, r := range l.recs {
		out = append(out, map[string]any{"mid": r.Tag, "k": keyNum(r.K), "p": payNum(r.P)})
	}
	return out
}

func payOfHash(h uint64) int {
	for p := 1; p <= 9; p++ {
		f := fnv.New64a()
		f.Write(payload(p))
		if f.Sum64() == h {
			return p
		}
	}
	return 0
}

func keyNum(k string) int {
	if k == "" {
		return 0
	}
	n, _ := strconv.Atoi(k[strings.LastIndex(k, "k")+1:])
	return n
}
func payNum(p string) int { n, _ := strconv.Atoi(strings.TrimPrefix(p, "p")); return n }

// tagAt translates a real (message id, seq) into the owner item of the record stored there.
func (a *vAppender) tagAt(c int, mid, seq uint64) int {
	l := a.logOf(c)
	l.mu.Lock()
	defer l.mu.Unlock()
	if seq < 1 || int(seq) > len(l.recs) || l.recs[seq-1].Mid != mid {
		return -1
	}
	return l.recs[seq-1].Tag
}

// ---- message ids, effects, observer, resolver ---------------------------------------------------

type vIDs struct{ n atomic.Uint64 }

func (v *vIDs) Next() uint64 { return 1000 + v.n.Add(1) }

type vEffCall struct {
	c       int
	tag     int
	release chan struct{}
	claimed bool
	ended   bool
}

type vEffects struct {
	a     *vAppender
	rec   *vRec
	gated bool
	mu    sync.Mutex
	calls []*vEffCall
	done  map[int]bool
}

func (e *vEffects) EnqueuePersistAfter(ctx context.Context, env ca.CommittedEnvelope) {
	if chanOf(env.ChannelID) >= vAuxChan {
		return
	}
	e.a.enter()
	defer e.a.leave()
	call := &vEffCall{c: chanOf(env.ChannelID), tag: tagOfTopic(env.Topic), release: make(chan struct{}, 1)}
	e.mu.Lock()
	e.calls = append(e.calls, call)
	e.mu.Unlock()
	e.a.mu.Lock()
	shut := e.a.shut
	e.a.cond.Broadcast()
	e.a.mu.Unlock()
	e.rec.now(kit.Ev("EffStart", "c", call.c, "mid", call.tag, "seq", int(env.MessageSeq)))
	if e.gated && !shut {
		<-call.release
	} else if !e.gated {
		e.a.perturb()
	}
	cancelled := ctx != nil && ctx.Err() != nil
	e.mu.Lock()
	call.ended = true
	e.done[call.tag] = true
	e.mu.Unlock()
	e.rec.now(kit.Ev("EffEnd", "c", call.c, "mid", call.tag, "cancelled", cancelled))
	e.a.mu.Lock()
	e.a.cond.Broadcast()
	e.a.mu.Unlock()
}

type vObserver struct {
	mu   sync.Mutex
	last ca.WriterPressureObservation
	cond *sync.Cond
}

func (o *vObserver) AppendFinished(string, error, time.Duration) {}
func (o *vObserver) SetChannelAppendWriterPressure(p ca.WriterPressureObservation) {
	o.mu.Lock()
	o.last = p
	o.cond.Broadcast()
	o.mu.Unlock()
}

type vResolver struct{}

func (vResolver) ResolveAppendAuthority(_ context.Context, id ca.ChannelID) (ca.AuthorityTarget, error) {
	return ca.AuthorityTarget{ChannelID: id, LeaderNodeID: vNode, Epoch: 1, LeaderEpoch: 1}, nil
}

// ---- the system under test ------------------------------------------------------------------

type vCfg struct {
	Inflight int
	Hw       int // 99 = unbounded (package default 1024)
	Cap      int // 99 = unbounded (package default 1024)
	Eff      bool
	Shards   int
	Advance  int
	Pool     int
	Coalesce time.Duration // <0 disabled, 0 default
	Ret      time.Duration // WriterIdleRetention, 0 = package default (10 minutes)
}

type vSUT struct {
	cfg   vCfg
	rec   *vRec
	app   *vAppender
	eff   *vEffects
	obs   *vObserver
	group *ca.Group
}

func newSUT(cfg vCfg, rec *vRec, gated bool) (*vSUT, error) {
	s := &vSUT{cfg: cfg, rec: rec}
	s.app = newAppender(rec, gated)
	s.eff = &vEffects{a: s.app, rec: rec, gated: gated, done: map[int]bool{}}
	s.obs = &vObserver{}
	s.obs.cond = sync.NewCond(&s.obs.mu)
	opts := ca.Options{
		LocalNodeID: vNode, Appender: s.app, Idempotency: s.app, MessageID: &vIDs{},
		AppendInflightBatchesPerChannel: cfg.Inflight,
		AuthorityShardCount:             cfg.Shards, AdvancePoolSize: cfg.Advance, EffectPoolSize: cfg.Pool,
		InboxCoalesceWindow: cfg.Coalesce, Observer: s.obs, WriterIdleRetention: cfg.Ret,
	}
	if cfg.Hw != 99 {
		opts.ChannelBacklogHighWatermark = cfg.Hw
	}
	if cfg.Cap != 99 {
		opts.AdmissionCapacityPerShard = cfg.Cap
	}
	if cfg.Eff {
		opts.PersistAfterEnqueuer = s.eff
	}
	s.group = ca.New(opts)
	if err := s.group.Start(context.Background()); err != nil {
		return nil, err
	}
	return s, nil
}

// shutdown answers everything still parked and stops the group (cleanup; bounded).
func (s *vSUT) shutdown() error {
	s.app.mu.Lock()
	s.app.shut = true
	calls := append([]*vCall(nil), s.app.calls...)
	s.app.mu.Unlock()
	for _, c := range calls {
		select {
		case c.release <- vOutcome{kind: "failBefore"}:
		default:
		}
	}
	s.eff.mu.Lock()
	effs := append([]*vEffCall(nil), s.eff.calls...)
	s.eff.mu.Unlock()
	for _, c := range effs {
		select {
		case c.release <- struct{}{}:
		default:
		}
	}
	ctx, cancel := context.WithTimeout(context.Background(), vStuckWait)
	defer cancel()
	return s.group.Stop(ctx)
}

// ---- results ------------------------------------------------------------------------------------

type vRes struct {
	T   string
	Mid int
	Seq int
	Err string
}

func (r vRes) proj() map[string]any { return map[string]any{"t": r.T, "mid": r.Mid, "seq": r.Seq} }

func (s *vSUT) classify(c int, r ca.SendBatchItemResult) vRes {
	switch {
	case r.Err == nil && r.Result.Reason == ca.ReasonSuccess:
		return vRes{T: "ok", Mid: s.app.tagAt(c, r.Result.MessageID, r.Result.MessageSeq), Seq: int(r.Result.MessageSeq)}
	case r.Err == nil:
		return vRes{T: "reason" + strconv.Itoa(int(r.Result.Reason))}
	case errors.Is(r.Err, ca.ErrChannelBusy):
		return vRes{T: "busy"}
	case errors.Is(r.Err, ca.ErrAppendFailed):
		return vRes{T: "fail"}
	case errors.Is(r.Err, context.Canceled), errors.Is(r.Err, context.DeadlineExceeded):
		return vRes{T: "canceled", Err: r.Err.Error()}
	case errors.Is(r.Err, ca.ErrRouteNotReady):
		return vRes{T: "notReady"}
	case errors.Is(r.Err, ca.ErrBackpressured):
		return vRes{T: "backpressured"}
	case errors.Is(r.Err, ca.ErrAppendResultMissing):
		return vRes{T: "missing"}
	default:
		return vRes{T: "other", Err: r.Err.Error()}
	}
}

func submitClass(err error) string {
	switch {
	case err == nil:
		return "ok"
	case errors.Is(err, ca.ErrRouteNotReady):
		return "notReady"
	case errors.Is(err, ca.ErrBackpressured):
		return "backpressured"
	default:
		return "other:" + err.Error()
	}
}

// futureDone reports whether the future has completed, without waiting: Wait selects between
// the done channel and an already cancelled context, so a completed future is returned by at
// least one of many attempts (probability of missing it 2^-64).
func futureDone(f *ca.Future) ([]ca.SendBatchItemResult, bool) {
	ctx, cancel := context.WithCancel(context.Background())
	cancel()
	for i := 0; i < 64; i++ {
		if res, err := f.Wait(ctx); err == nil {
			return res, true
		}
	}
	return nil, false
}

func waitFuture(f *ca.Future, d time.Duration) ([]ca.SendBatchItemResult, bool) {
	ctx, cancel := context.WithTimeout(context.Background(), d)
	defer cancel()
	res, err := f.Wait(ctx)
	return res, err == nil
}

// =================================================================================================
// Method A: gated replay
// =================================================================================================

type replayBatch struct {
	c     int
	first int
	n     int
	fut   *ca.Future
	seen  bool
}

type stopRun struct {
	cancel context.CancelFunc
	ret    chan error
	res    string
}

type replay struct {
	t       *testing.T
	rep     *kit.Report
	prop    string
	name    string
	beh     kit.Behaviour
	sut     *vSUT
	batches []*replayBatch
	calls   map[string]*vCall // "c/n/att" -> parked appender call
	effs    map[int]*vEffCall
	stops   map[int]*stopRun
	nLook   int
	failed  bool
	tinyRet bool                       // run with WriterIdleRetention = 1ns: every idle writer is reclaimable at once
	cancels map[int]context.CancelFunc // item -> cancel of its SendBatchItem.Context
	gaveUp  map[int]bool               // items whose submitter cancelled (CancelItem)
	nAux    int
}

type vioErr struct {
	prop, kind, detail, sig string
}

func (e *vioErr) Error() string { return e.kind + ": " + e.detail }

type infraErr struct{ msg string }

func (e *infraErr) Error() string { return e.msg }

func vio(prop, kind, format string, a ...any) error {
	return &vioErr{prop: prop, kind: kind, detail: fmt.Sprintf(format, a...)}
}

// waitCond waits under the appender's lock until pred holds.  It returns false when the bound
// expires.  quiet reports whether no port call was in progress for the whole second half of
// the wait (nothing outside the package was holding the pipeline up).
func (a *vAppender) waitCond(d time.Duration, pred func() bool) (ok bool, quiet bool) {
	deadline := time.Now().Add(d)
	stop := make(chan struct{})
	go func() {
		t := time.NewTicker(20 * time.Millisecond)
		defer t.Stop()
		for {
			select {
			case <-stop:
				return
			case <-t.C:
				a.mu.Lock()
				a.cond.Broadcast()
				a.mu.Unlock()
			}
		}
	}()
	defer close(stop)
	a.mu.Lock()
	defer a.mu.Unlock()
	quiet = true
	for !pred() {
		if time.Now().After(deadline) {
			return false, quiet
		}
		a.cond.Wait()
	}
	return true, quiet
}

func intsOf(v any) []int {
	l, _ := v.([]any)
	out := make([]int, 0, len(l))
	for _, x := range l {
		out = append(out, int(kit.ToInt(x)))
	}
	return out
}

func sameInts(a, b []int) bool {
	if len(a) != len(b) {
		return false
	}
	for i := range a {
		if a[i] != b[i] {
			return false
		}
	}
	return true
}

func cfgOf(m map[string]any) vCfg {
	return vCfg{Inflight: int(kit.Int(m, "inflight")), Hw: int(kit.Int(m, "hw")), Cap: int(kit.Int(m, "cap")), Eff: kit.Bool(m, "eff"),
		Shards: 1, Advance: 4, Pool: 8, Coalesce: -1}
}

// awaitCall waits for an unclaimed parked appender call of channel c and claims it.
func (r *replay) awaitCall(c int) (*vCall, error) {
	var got *vCall
	ok, _ := r.sut.app.waitCond(vStepWait, func() bool {
		for _, call := range r.sut.app.calls {
			if call.c == c && !call.claimed && !call.ended {
				got = call
				return true
			}
		}
		return false
	})
	if !ok {
		return nil, nil
	}
	r.sut.app.mu.Lock()
	got.claimed = true
	r.sut.app.mu.Unlock()
	return got, nil
}

func (r *replay) expectCall(c, n, att int, tags []int, what string) error {
	call, _ := r.awaitCall(c)
	if call == nil {
		return r.stuck("the specification's %s (channel %d, items %v, attempt %d) did not reach the Appender", what, c, tags, att)
	}
	if !sameInts(call.tags, tags) || call.att != att {
		return vio("C29", "append-request", "the Appender received items %v (attempt %d) on channel %d; the specification's request is %v (attempt %d); all requests so far: %s",
			call.tags, call.att, c, tags, att, r.sut.app.callList())
	}
	r.calls[fmt.Sprintf("%d/%d/%d", c, n, att)] = call
	return nil
}

// stuck classifies an expected spontaneous step that did not happen within the bound.  When
// no port call is in progress nothing outside the package can be holding the pipeline: the
// admitted work is not being worked on (property: every item receives a result).  The wait is
// repeated once; if the step shows up late the machine was too slow (infrastructure).
func (r *replay) stuck(format string, a ...any) error {
	msg := fmt.Sprintf(format, a...)
	r.sut.app.mu.Lock()
	open := r.sut.app.open
	parked := 0
	for _, c := range r.sut.app.calls {
		if !c.ended {
			parked++
		}
	}
	r.sut.app.mu.Unlock()
	// every open port call must be one of the calls the harness itself keeps parked
	r.sut.eff.mu.Lock()
	for _, c := range r.sut.eff.calls {
		if !c.ended {
			parked++
		}
	}
	r.sut.eff.mu.Unlock()
	if open > parked {
		return &infraErr{msg + " (a port call was still running: machine too slow?)"}
	}
	r.sut.app.mu.Lock()
	var extra []string
	for _, c := range r.sut.app.calls {
		if !c.claimed && !c.ended {
			extra = append(extra, fmt.Sprintf("channel %d items %v attempt %d", c.c, c.tags, c.att))
		}
	}
	r.sut.app.mu.Unlock()
	if len(extra) > 0 {
		return vio("C29", "append-not-in-spec", "%s; instead the Appender holds requests the specification does not issue in this schedule: %v", msg, extra)
	}
	return vio("C29,C41", "no-progress", "%s within %s although no port call was running: admitted work is not being completed", msg, vStepWait)
}

func (r *replay) run() (err error) {
	steps := r.beh.Steps
	if len(steps) == 0 || kit.Str(steps[0].Ev, "a") != "Init" {
		return &infraErr{"behaviour does not start with Init"}
	}
	rec := &vRec{}
	cfg := cfgOf(kit.Map(steps[0].Ev, "cfg"))
	if r.tinyRet {
		cfg.Ret = time.Nanosecond
	}
	r.cancels, r.gaveUp = map[int]context.CancelFunc{}, map[int]bool{}
	defer func() {
		for _, cancel := range r.cancels {
			cancel()
		}
	}()
	sut, e := newSUT(cfg, rec, true)
	if e != nil {
		return &infraErr{"cannot start group: " + e.Error()}
	}
	r.sut = sut
	r.calls, r.effs, r.stops = map[string]*vCall{}, map[int]*vEffCall{}, map[int]*stopRun{}
	defer func() {
		for _, s := range r.stops {
			if s.cancel != nil {
				s.cancel()
			}
		}
		if e := sut.shutdown(); e != nil && err == nil {
			err = r.stuck("cleanup: Group.Stop did not return after every parked call was answered (%v)", e)
		}
	}()
	for i := 1; i < len(steps); i++ {
		if err := r.step(steps[i]); err != nil {
			return fmt.Errorf("step %d (%s): %w", i, kit.Str(steps[i].Ev, "a"), err)
		}
		r.rep.Cover(kit.Str(steps[i].Ev, "a"))
		// The pipeline takes its own steps (Prepare, AppendStart, Lookup, EffStart, a drained Stop
		// returning) without waiting for the driver, so it may already be past an intermediate
		// state of the behaviour: "has not happened yet" is only checked in quiescent states.
		quiescent := false
		if st, _ := steps[i].St.(map[string]any); st != nil {
			quiescent = kit.Bool(st, "q")
		}
		if err := r.compare(steps[i], quiescent); err != nil {
			return fmt.Errorf("after step %d (%s): %w", i, kit.Str(steps[i].Ev, "a"), err)
		}
	}
	// nothing reached the Appender that the specification does not have (a behaviour cut off in a
	// state where the pipeline still has steps of its own to take says nothing about them)
	if last, _ := steps[len(steps)-1].St.(map[string]any); last == nil || !kit.Bool(last, "q") {
		return nil
	}
	sut.app.mu.Lock()
	var extra []string
	for _, c := range sut.app.calls {
		if !c.claimed {
			extra = append(extra, fmt.Sprintf("channel %d items %v attempt %d", c.c, c.tags, c.att))
		}
	}
	sut.app.mu.Unlock()
	if len(extra) > 0 {
		return vio("C29", "append-not-in-spec", "the Appender received requests the specification does not issue in this schedule: %v", extra)
	}
	return r.strictOrder(steps[len(steps)-1])
}

const sigRetryReorder = "C29:recovery-retry-stored-behind-later-batch-with-two-batches-in-flight"

// strictOrder evaluates "successful sends to the same channel receive strictly increasing
// sequences in submission order" on the results the real code produced (they equal the
// specification's at this point).  The specification exempts one case from C29_Order because the
// code really behaves so (MC_finding.cfg): with AppendInflightBatchesPerChannel > 1 the bounded
// recovery retry of a batch is a new request behind the later batch.  That case is reported
// with the finding's signature, anything else as a plain violation.
func (r *replay) strictOrder(last kit.Step) error {
	proj, _ := last.St.(map[string]any)
	res := kit.List(proj, "res")
	type stored struct{ seq, att int }
	own := map[int]stored{} // item -> its own record
	chanOfItem := map[int]int{}
	for _, b := range r.batches {
		for j := 0; j < b.n; j++ {
			chanOfItem[b.first+j] = b.c
		}
	}
	for c := 1; c <= 8; c++ {
		l := r.sut.app.logOf(c)
		l.mu.Lock()
		for pos, rec := range l.recs {
			if _, dup := own[rec.Tag]; !dup {
				own[rec.Tag] = stored{pos + 1, rec.Att}
			}
		}
		l.mu.Unlock()
	}
	fresh := func(i int) bool {
		if i-1 >= len(res) {
			return false
		}
		m := res[i-1].(map[string]any)
		return kit.Str(m, "t") == "ok" && int(kit.Int(m, "mid")) == i
	}
	for i := 1; i <= len(res); i++ {
		for j := i + 1; j <= len(res); j++ {
			if chanOfItem[i] != chanOfItem[j] || !fresh(i) || !fresh(j) || own[i].seq < own[j].seq {
				continue
			}
			detail := fmt.Sprintf("item %d was submitted to channel %d before item %d, both are new successful messages, but their sequences are %d and %d",
				i, chanOfItem[i], j, own[i].seq, own[j].seq)
			// narrow match: more than one batch in flight AND the earlier-submitted item was stored by
			// a recovery second attempt (which reached the Appender behind the later batch)
			if r.sut.cfg.Inflight > 1 && own[i].att == 2 {
				return &vioErr{prop: "C29", kind: "order", sig: sigRetryReorder,
					detail: detail + " (AppendInflightBatchesPerChannel = 2: the bounded recovery retry of the earlier batch reached the Appender behind the later batch)"}
			}
			return vio("C29", "order", "%s", detail)
		}
	}
	return nil
}

func (r *replay) step(st kit.Step) error {
	ev := st.Ev
	app := r.sut.app
	switch kit.Str(ev, "a") {
	case "Submit":
		c := int(kit.Int(ev, "c"))
		first := int(kit.Int(ev, "first"))
		its := kit.List(ev, "its")
		items := make([]ca.SendBatchItem, len(its))
		for j, x := range its {
			m := x.(map[string]any)
			id := 0
			if first > 0 {
				id = first + j
			}
			ctx := context.Background()
			if id > 0 {
				var cancel context.CancelFunc
				ctx, cancel = context.WithCancel(ctx)
				r.cancels[id] = cancel
			}
			items[j] = vItem{ID: id, C: c, K: int(kit.Int(m, "k")), P: int(kit.Int(m, "p"))}.sendCtx(ctx)
		}
		fut, err := r.sut.group.SubmitLocal(context.Background(), vTarget(c), items)
		got, want := submitClass(err), kit.Str(ev, "res")
		if err == nil {
			r.batches = append(r.batches, &replayBatch{c: c, first: first, n: len(its), fut: fut})
		}
		if got != want {
			p := "C29"
			if want == "notReady" || got == "notReady" {
				p = "C41"
			}
			if want == "ok" {
				p = "C29,C41" // accepted work was turned away
			}
			return vio(p, "submit-reply", "SubmitLocal(channel %d, %d items) answered %s; the specification answers %s", c, len(its), got, want)
		}
	case "Prepare":
		// no port call: the results of rejected batches are compared below, the rest is awaited
		// through the pressure gauges (compare)
	case "AppendStart":
		return r.expectCall(int(kit.Int(ev, "c")), int(kit.Int(ev, "n")), int(kit.Int(ev, "att")), intsOf(ev["tags"]), "append request")
	case "AppendEnd":
		key := fmt.Sprintf("%d/%d/%d", kit.Int(ev, "c"), kit.Int(ev, "n"), kit.Int(ev, "att"))
		call := r.calls[key]
		if call == nil {
			return &infraErr{"AppendEnd for a request that was never parked: " + key}
		}
		want := kit.Str(ev, "out")
		out := vOutcome{}
		if want == "failBefore" || want == "failAfter" {
			out.kind = want
		}
		call.release <- out
		ok, _ := app.waitCond(vStepWait, func() bool { return call.ended })
		if !ok {
			return &infraErr{"released append call did not finish"}
		}
		if call.out != want {
			if call.out == "ctx" {
				return vio("C41", "append-cancelled", "the context of an append request was cancelled while it was at the Appender")
			}
			return vio("C29", "appender-outcome", "the store answered %q to the request %v of channel %d; the specification's log answers %q", call.out, call.tags, call.c, want)
		}
	case "Lookup":
		if kit.Bool(ev, "called") {
			r.nLook++
			n := r.nLook
			ok, _ := app.waitCond(vStepWait, func() bool { return len(app.lookups) >= n })
			if !ok {
				return r.stuck("recovery lookup of item %d", kit.Int(ev, "i"))
			}
			app.mu.Lock()
			lk := app.lookups[n-1]
			app.mu.Unlock()
			want := kit.Map(ev, "res")
			wantHit := kit.Str(want, "t") == "ok"
			if lk.c != int(kit.Int(ev, "c")) || lk.k != "u1/"+keyName(int(kit.Int(ev, "k"))) {
				return vio("C29", "lookup-order", "recovery lookup %d asked for %s on channel %d; the specification looks up key %d on channel %d", n, lk.k, lk.c, kit.Int(ev, "k"), kit.Int(ev, "c"))
			}
			if lk.hit != wantHit || (wantHit && (lk.tag != int(kit.Int(want, "mid")) || int(lk.seq) != int(kit.Int(want, "seq")))) {
				return vio("C29", "lookup-reply", "recovery lookup of item %d answered hit=%v (%d,%d); the specification's log answers %v", kit.Int(ev, "i"), lk.hit, lk.tag, lk.seq, want)
			}
		}
		if tags := intsOf(ev["retry"]); len(tags) > 0 {
			return r.expectCall(int(kit.Int(ev, "c")), int(kit.Int(ev, "n")), 2, tags, "bounded retry request")
		}
	case "EffStart":
		c, mid := int(kit.Int(ev, "c")), int(kit.Int(ev, "mid"))
		var got *vEffCall
		ok, _ := app.waitCond(vStepWait, func() bool {
			r.sut.eff.mu.Lock()
			defer r.sut.eff.mu.Unlock()
			for _, call := range r.sut.eff.calls {
				if call.c == c && !call.claimed {
					got = call
					return true
				}
			}
			return false
		})
		if !ok {
			return r.stuck("post-commit effect of message %d", mid)
		}
		got.claimed = true
		if got.tag != mid {
			return vio("C41", "effect", "post-commit effect started for message %d; the specification starts it for %d", got.tag, mid)
		}
		r.effs[mid] = got
	case "EffEnd":
		call := r.effs[int(kit.Int(ev, "mid"))]
		if call == nil {
			return &infraErr{"EffEnd without EffStart"}
		}
		call.release <- struct{}{}
		ok, _ := app.waitCond(vStepWait, func() bool {
			r.sut.eff.mu.Lock()
			defer r.sut.eff.mu.Unlock()
			return call.ended
		})
		if !ok {
			return &infraErr{"released effect did not finish"}
		}
	case "CancelItem":
		// the submitter gives up on the item while its request is parked at the Appender
		i := int(kit.Int(ev, "i"))
		cancel := r.cancels[i]
		if cancel == nil {
			return &infraErr{fmt.Sprintf("CancelItem(%d): no such item", i)}
		}
		r.gaveUp[i] = true
		cancel()
	case "Reclaim":
		// The shard's cleanup cannot be commanded for one channel; what can be done is to make it
		// run: a first-ever send to another channel of the shard (shard.getOrCreate).  With
		// WriterIdleRetention = 1ns it drops every writer the code considers idle -- which must be
		// none but writers that own nothing (Reclaimable).  With the default retention the step is
		// a no-op, as in the specification.
		if !r.tinyRet {
			return nil
		}
		r.nAux++
		c := vAuxChan + r.nAux
		fut, err := r.sut.group.SubmitLocal(context.Background(), vTarget(c), []ca.SendBatchItem{vItem{ID: 0, C: c, P: 1}.send()})
		if err != nil {
			if (r.sut.cfg.Cap != 99 && errors.Is(err, ca.ErrBackpressured)) || (len(r.stops) > 0 && errors.Is(err, ca.ErrRouteNotReady)) {
				return nil // no admission slot left for the probe / admission closed by Stop: nothing ran
			}
			return &infraErr{"reclaim probe was not admitted: " + err.Error()}
		}
		if _, ok := waitFuture(fut, vStepWait); !ok {
			return r.stuck("result of the reclaim probe (a send to a fresh channel of the shard)")
		}
	case "StopCall":
		s := int(kit.Int(ev, "s"))
		ctx, cancel := context.WithCancel(context.Background())
		run := &stopRun{cancel: cancel, ret: make(chan error, 1)}
		r.stops[s] = run
		go func() { run.ret <- r.sut.group.Stop(ctx) }()
		// Stop's first statement closes admission: Start() answers an error from then on (and
		// is a no-op on a started group before).
		deadline := time.Now().Add(vStepWait)
		for r.sut.group.Start(context.Background()) == nil {
			if time.Now().After(deadline) {
				return &infraErr{"Stop was called but admission did not close"}
			}
			runtime.Gosched()
		}
	case "StopReturn":
		s := int(kit.Int(ev, "s"))
		run := r.stops[s]
		if run == nil {
			return &infraErr{"StopReturn without StopCall"}
		}
		want := kit.Str(ev, "res")
		if want == "timeout" {
			run.cancel()
		}
		select {
		case err := <-run.ret:
			got := "done"
			if err != nil {
				got = "timeout"
			}
			run.res = got
			if got != want {
				return vio("C41", "stop-reply", "Stop #%d returned %s (%v); the specification returns %s", s, got, err, want)
			}
		case <-time.After(vStepWait):
			return r.stuck("return of Stop #%d (drain finished)", s)
		}
	default:
		return &infraErr{"unknown action " + kit.Str(ev, "a")}
	}
	return nil
}

// compare checks the observable state after a step against the specification's projection.
func (r *replay) compare(st kit.Step, quiescent bool) error {
	proj, _ := st.St.(map[string]any)
	if proj == nil {
		return &infraErr{"step without projection"}
	}
	want := kit.List(proj, "res")
	for _, b := range r.batches {
		if b.seen {
			continue
		}
		resolved := true
		for j := 0; j < b.n; j++ {
			if b.first+j-1 >= len(want) || kit.Str(want[b.first+j-1].(map[string]any), "t") == "none" {
				resolved = false
			}
		}
		if !resolved {
			// A slot completed earlier than the specification completes it is not compared (the
			// property constrains the values, which are compared when the specification has them),
			// except for results no admitted item may ever receive.
			if got, done := futureDone(b.fut); done {
				for j, x := range got {
					switch g := r.sut.classify(b.c, x); g.T {
					case "ok", "fail", "busy":
					case "canceled", "notReady", "backpressured":
						if g.T == "canceled" && len(r.gaveUp) > 0 { // the item itself or the owner it was coalesced onto
							continue // compared when the specification has the result
						}
						return vio("C41", "result", "item %d (channel %d) was admitted and then answered %s %s", b.first+j, b.c, g.T, g.Err)
					default:
						return vio("C29", "result", "item %d (channel %d) was answered %s %s", b.first+j, b.c, g.T, g.Err)
					}
				}
			}
			continue
		}
		got, ok := waitFuture(b.fut, vStepWait)
		if !ok {
			return r.stuck("result of items %d..%d of channel %d", b.first, b.first+b.n-1, b.c)
		}
		b.seen = true
		if len(got) != b.n {
			return vio("C29", "result-count", "batch of %d items received %d results", b.n, len(got))
		}
		for j := range got {
			g := r.sut.classify(b.c, got[j])
			w := want[b.first+j-1].(map[string]any)
			if !kit.Equal(g.proj(), w) {
				p := "C29"
				if (g.T == "canceled" && len(r.gaveUp) == 0) || g.T == "notReady" || g.T == "backpressured" {
					p = "C41"
				}
				return vio(p, "result", "item %d (position %d of its batch, channel %d) received %s %s; the specification's result is %s",
					b.first+j, j, b.c, kit.JSON(g.proj()), g.Err, kit.JSON(w))
			}
		}
	}
	// the log
	wantLog := kit.List(proj, "log")
	for c := 1; c <= len(wantLog); c++ {
		if got := r.sut.app.logProj(c); !kit.Equal(got, wantLog[c-1]) {
			return vio("C29", "log", "channel %d log is %s; the specification's is %s", c, kit.JSON(got), kit.JSON(wantLog[c-1]))
		}
	}
	// finished effects
	r.sut.eff.mu.Lock()
	var effs []int
	for t := range r.sut.eff.done {
		effs = append(effs, t)
	}
	r.sut.eff.mu.Unlock()
	sort.Ints(effs)
	if !sameInts(effs, intsOf(proj["effdone"])) {
		return vio("C41", "effects", "finished post-commit effects %v; the specification's %v", effs, intsOf(proj["effdone"]))
	}
	if !quiescent {
		return nil
	}
	// a Stop that the specification still keeps waiting must not have returned
	for s, run := range r.stops {
		if run.res != "" {
			continue
		}
		select {
		case err := <-run.ret:
			run.res = "returned"
			return vio("C41", "stop-early", "Stop #%d returned (%v) while the specification still has work to drain", s, err)
		default:
		}
	}
	// Quiescent state: wait until the package's own gauges (exported WriterPressureObserver) show
	// the specification's queue lengths, so that the next caller step meets the state the
	// specification is in.  A writer pass admits the inbox snapshot it took when it started; without
	// this wait a slow pass could still hold an older snapshot when the driver goes on, and the real
	// writer would cut its batches differently from the schedule (legal, but not the schedule being
	// replayed).  The gauges are never compared as observables; expiry is infrastructure trouble.
	cfg := r.sut.cfg
	sync := kit.Map(proj, "sync")
	deadline := time.Now().Add(vStepWait)
	o := r.sut.obs
	settled := func() bool {
		if o.last.PendingAppendItems != int(kit.Int(sync, "pend")) || o.last.AppendInflightItems != int(kit.Int(sync, "infl")) {
			return false
		}
		return cfg.Cap == 99 || o.last.AdmissionDepth == int(kit.Int(sync, "adm"))
	}
	started := time.Now()
	o.mu.Lock()
	for !settled() {
		if late := time.Now().After(deadline); late || time.Since(started) > 2*time.Second {
			// In a quiescent state every request of the specification has been claimed: a request
			// parked at the Appender now is one the specification does not issue (the gauges differ
			// because of it).
			o.mu.Unlock()
			if extra := r.unclaimed(); len(extra) > 0 {
				return vio("C29", "append-not-in-spec", "the Appender holds requests the specification does not issue in this schedule: %v; all requests so far: %s", extra, r.sut.app.callList())
			}
			o.mu.Lock()
			if !late {
				started = time.Now()
				continue
			}
			last := o.last
			o.mu.Unlock()
			return &infraErr{fmt.Sprintf("pressure gauges did not settle: adm/pend/infl = %d/%d/%d, specification %v", last.AdmissionDepth, last.PendingAppendItems, last.AppendInflightItems, sync)}
		}
		o.mu.Unlock()
		time.Sleep(100 * time.Microsecond)
		o.mu.Lock()
	}
	o.mu.Unlock()
	return nil
}

// unclaimed lists the requests parked at the Appender that no step of the behaviour accounted for.
func (r *replay) unclaimed() []string {
	r.sut.app.mu.Lock()
	defer r.sut.app.mu.Unlock()
	var extra []string
	for _, c := range r.sut.app.calls {
		if !c.claimed && !c.ended {
			extra = append(extra, fmt.Sprintf("channel %d items %v attempt %d", c.c, c.tags, c.att))
		}
	}
	return extra
}

func runReplay(t *testing.T, rep *kit.Report, prop, name string, beh kit.Behaviour, tinyRet bool) (reported bool) {
	r := &replay{t: t, rep: rep, prop: prop, name: name, beh: beh, tinyRet: tinyRet}
	err := r.run()
	if err == nil {
		return false
	}
	var v *vioErr
	var inf *infraErr
	switch {
	case errors.As(err, &v):
		// a disagreement is reported by the check(s) of the property it contradicts; the shared
		// harness runs under both ids
		if !propEnabled(v.prop) {
			rep.AddExtra("disagreements_left_to_sibling_check", 1)
			return false
		}
		id := os.Getenv("VERIF_PROPERTY")
		if id == "" || !strings.Contains(v.prop, id) {
			id = strings.Split(v.prop, ",")[0]
		}
		if v.sig != "" {
			if reportedSigs[v.sig] {
				return false
			}
			reportedSigs[v.sig] = true
		}
		rep.ViolateSig(id, v.kind, name+": "+err.Error(), v.sig, map[string]any{"behaviour": beh, "source": name})
		return v.sig == "" // a finding with a signature does not end the run
	case errors.As(err, &inf):
		rep.Infra("%s: %v", name, err)
	default:
		rep.Infra("%s: %v", name, err)
	}
	return false
}

var reportedSigs = map[string]bool{}

// propEnabled: props is a comma separated list of the properties a disagreement contradicts.
func propEnabled(props string) bool {
	p := os.Getenv("VERIF_PROPERTY")
	return p == "" || strings.Contains(props, p)
}

// =================================================================================================
// Method B: seeded concurrent traffic, recorded
// =================================================================================================

type lockedRand struct {
	mu sync.Mutex
	r  *rand.Rand
}

func (l *lockedRand) Intn(n int) int {
	l.mu.Lock()
	defer l.mu.Unlock()
	return l.r.Intn(n)
}

// recSubmitter is the LocalSubmitter given to the Router and used directly: it serializes the
// SubmitLocal calls of one channel (so that the order of the recorded Submit events of a
// channel is the order in which the writer received them) and records them.
type recSubmitter struct {
	sut   *vSUT
	rec   *vRec
	locks sync.Map // channel -> *sync.Mutex
	mu    sync.Mutex
	futs  []*ca.Future
	nb    atomic.Int64
	// serial (histories with a tiny WriterIdleRetention): every SubmitLocal of the history, the
	// reclaim probes included, runs under this lock, so that a probe's cleanup never falls between
	// another call's writer lookup and its enqueue (submission order of such a race is undefined)
	serial *sync.Mutex
	// stopped is set after a Stop returned nil
	stopped atomic.Bool
	late    atomic.Int64 // futures found unfinished after a Stop had returned nil
}

func (s *recSubmitter) SubmitLocal(ctx context.Context, target ca.AuthorityTarget, items []ca.SendBatchItem) (*ca.Future, error) {
	c := chanOf(target.ChannelID.ID)
	mu, _ := s.locks.LoadOrStore(c, &sync.Mutex{})
	mu.(*sync.Mutex).Lock()
	its := make([]any, len(items))
	for j, it := range items {
		cmd := it.Command
		its[j] = map[string]any{"i": tagOfTopic(cmd.Topic), "k": keyNum(cmd.ClientMsgNo), "p": payNum(string(cmd.Payload))}
	}
	b := int(s.nb.Add(1))
	if s.serial != nil {
		s.serial.Lock()
	}
	callSeq := s.rec.stamp()
	fut, err := s.sut.group.SubmitLocal(ctx, target, items)
	if s.serial != nil {
		s.serial.Unlock()
	}
	res := submitClass(err)
	if err == nil {
		// an admitted batch takes effect inside the call: recorded at the call
		s.rec.put(callSeq, kit.Ev("Submit", "b", b, "c", c, "its", its, "res", res))
		s.mu.Lock()
		s.futs = append(s.futs, fut)
		s.mu.Unlock()
	} else {
		// a rejected batch has no effect: recorded at the return
		s.rec.now(kit.Ev("Submit", "b", b, "c", c, "its", its, "res", res))
	}
	mu.(*sync.Mutex).Unlock()
	if err == nil && s.stopped.Load() {
		if _, done := futureDone(fut); !done {
			s.late.Add(1)
		}
	}
	return fut, err
}

func (s *recSubmitter) undone() int {
	s.mu.Lock()
	futs := append([]*ca.Future(nil), s.futs...)
	s.mu.Unlock()
	n := 0
	for _, f := range futs {
		if _, done := futureDone(f); !done {
			n++
		}
	}
	return n
}

type traffic struct {
	sut   *vSUT
	sub   *recSubmitter
	rec   *vRec
	rng   *lockedRand
	chans int
	keys  int
	pays  int
	ids   atomic.Int64
	mu    sync.Mutex
	sent  []vItem // earlier items (for retries)
	stuck atomic.Int64
}

func (t *traffic) newItem(c, k, p int) vItem {
	it := vItem{ID: int(t.ids.Add(1)), C: c, K: k, P: p}
	t.mu.Lock()
	t.sent = append(t.sent, it)
	t.mu.Unlock()
	return it
}

func (t *traffic) pickItem() vItem {
	c := 1 + t.rng.Intn(t.chans)
	t.mu.Lock()
	n := len(t.sent)
	var old vItem
	if n > 0 {
		old = t.sent[t.rng.Intn(n)]
	}
	t.mu.Unlock()
	switch x := t.rng.Intn(10); {
	case n > 0 && old.K != 0 && x < 3: // retry, same payload
		return t.newItem(old.C, old.K, old.P)
	case n > 0 && old.K != 0 && x < 4: // reused key, changed payload
		return t.newItem(old.C, old.K, 1+t.rng.Intn(t.pays))
	case x < 6:
		return t.newItem(c, 0, 1+t.rng.Intn(t.pays))
	default:
		return t.newItem(c, 1+t.rng.Intn(t.keys), 1+t.rng.Intn(t.pays))
	}
}

// oldKeyed returns an earlier item that carries an idempotency key.
func (t *traffic) oldKeyed() (vItem, bool) {
	t.mu.Lock()
	defer t.mu.Unlock()
	var keyed []vItem
	for _, it := range t.sent {
		if it.K != 0 {
			keyed = append(keyed, it)
		}
	}
	if len(keyed) == 0 {
		return vItem{}, false
	}
	return keyed[t.rng.Intn(len(keyed))], true
}

func (t *traffic) record(it vItem, r vRes) {
	t.rec.now(kit.Ev("Result", "i", it.ID, "res", map[string]any{"t": r.T, "mid": r.Mid, "seq": r.Seq}))
}

func (t *traffic) worker(router *ca.Router, ops int) {
	for n := 0; n < ops; n++ {
		size := 1 + t.rng.Intn(3)
		items := make([]vItem, size)
		for j := range items {
			items[j] = t.pickItem()
		}
		if size > 1 && t.rng.Intn(4) == 0 { // the same logical send twice in one batch
			items[1] = t.newItem(items[0].C, items[0].K, items[0].P)
		}
		// aimed: a retry of an earlier send next to two fresh sends, the first of which may be given
		// up by its submitter while the store refuses the request
		aimed := false
		if old, ok := t.oldKeyed(); ok && t.rng.Intn(6) == 0 {
			aimed, size = true, 3
			items = []vItem{t.newItem(old.C, old.K, old.P), t.newItem(old.C, 0, 1+t.rng.Intn(t.pays)), t.newItem(old.C, t.rng.Intn(t.keys+1), 1+t.rng.Intn(t.pays))}
			if t.rng.Intn(3) == 0 {
				items[0], items[1] = items[1], items[0]
			}
		}
		if !aimed && t.rng.Intn(2) == 0 {
			// Router.SendBatch: several channels in one call
			in := make([]ca.SendBatchItem, size)
			for j, it := range items {
				in[j] = it.send()
			}
			done := make(chan []ca.SendBatchItemResult, 1)
			go func() { done <- router.SendBatch(in) }()
			select {
			case res := <-done:
				if len(res) != size {
					t.rec.now(kit.Ev("Result", "i", items[0].ID, "res", map[string]any{"t": "missing", "mid": 0, "seq": 0}))
					continue
				}
				for j, it := range items {
					t.record(it, t.sut.classify(it.C, res[j]))
				}
			case <-time.After(vStuckWait):
				t.stuck.Add(1)
				return
			}
		} else {
			// Group.SubmitLocal: one channel
			c := items[0].C
			in := make([]ca.SendBatchItem, size)
			for j := range items {
				items[j].C = c
				// only keyless items get a cancellable context: a keyed one may be coalesced with an
				// identical send of another caller (e.g. one that came through the Router), which would
				// then inherit the cancellation
				if items[j].K == 0 && ((aimed && j < 2) || t.rng.Intn(10) < 3) {
					ctx, cancel := context.WithCancel(context.Background())
					t.sut.app.cancels.Store(items[j].ID, cancel)
					in[j] = items[j].sendCtx(ctx)
				} else {
					in[j] = items[j].send()
				}
			}
			fut, err := t.sub.SubmitLocal(context.Background(), vTarget(c), in)
			if err != nil {
				continue
			}
			res, ok := waitFuture(fut, vStuckWait)
			if !ok {
				t.stuck.Add(1)
				return
			}
			if len(res) != size {
				t.rec.now(kit.Ev("Result", "i", items[0].ID, "res", map[string]any{"t": "missing", "mid": 0, "seq": 0}))
				continue
			}
			for j, it := range items {
				t.record(it, t.sut.classify(c, res[j]))
			}
		}
		if t.rng.Intn(3) == 0 {
			runtime.Gosched()
		}
	}
}

// runTraffic produces one recorded history and returns its events in global order.
func runTraffic(rep *kit.Report, seed int64, idx int, thorough bool) ([]vEvent, vCfg, error) {
	rng := &lockedRand{r: rand.New(rand.NewSource(seed))}
	cfg := vCfg{Inflight: 1 + rng.Intn(2), Hw: 99, Cap: 99, Eff: rng.Intn(2) == 0,
		Shards: []int{1, 4}[rng.Intn(2)], Advance: []int{1, 2, 4}[rng.Intn(3)], Pool: []int{1, 2, 4}[rng.Intn(3)],
		Coalesce: []time.Duration{-1, 0, 2 * time.Millisecond}[rng.Intn(3)]}
	if rng.Intn(3) == 0 {
		cfg.Inflight = 1
	}
	if rng.Intn(4) == 0 {
		cfg.Hw = 2 + rng.Intn(3)
	}
	if rng.Intn(5) == 0 {
		cfg.Cap = 1 + rng.Intn(3)
		cfg.Shards = 1
	}
	// a third of the histories: WriterIdleRetention of 2 ms, storage stalls of 8 ms, and a prober
	// that keeps sending to fresh sibling channels of the one shard (each such send runs the shard's
	// idle-writer cleanup)
	tiny := rng.Intn(3) == 0
	if tiny {
		cfg.Ret, cfg.Shards = 2*time.Millisecond, 1
	}
	rec := &vRec{on: true}
	sut, err := newSUT(cfg, rec, false)
	if err != nil {
		return nil, cfg, err
	}
	defer sut.app.cancels.Range(func(_, cancel any) bool { cancel.(context.CancelFunc)(); return true })
	sut.app.rng = rng.Intn
	sut.app.failP = []int{0, 10, 25}[rng.Intn(3)]
	sut.app.lat = rng.Intn(3)
	sub := &recSubmitter{sut: sut, rec: rec}
	trafficDone := make(chan struct{})
	var probeWG sync.WaitGroup
	if tiny {
		sut.app.hold = 4 * cfg.Ret
		sub.serial = &sync.Mutex{}
		probeWG.Add(1)
		go func() {
			defer probeWG.Done()
			for n := 1; ; n++ {
				select {
				case <-trafficDone:
					return
				default:
				}
				c := vAuxChan + n
				sub.serial.Lock()
				fut, err := sut.group.SubmitLocal(context.Background(), vTarget(c), []ca.SendBatchItem{vItem{C: c, P: 1}.send()})
				sub.serial.Unlock()
				if err == nil {
					waitFuture(fut, vStuckWait)
				} else if errors.Is(err, ca.ErrRouteNotReady) {
					return
				}
				time.Sleep(500 * time.Microsecond)
			}
		}()
	}
	router := ca.NewRouter(ca.RouterOptions{LocalNodeID: vNode, Resolver: vResolver{}, Local: sub, RetryBackoff: 50 * time.Microsecond})
	tr := &traffic{sut: sut, sub: sub, rec: rec, rng: rng, chans: 1 + rng.Intn(3), keys: 2 + rng.Intn(2), pays: 2}
	workers := 2 + rng.Intn(3)
	ops := 3 + rng.Intn(4)
	if thorough {
		ops += 3
	}
	var wg sync.WaitGroup
	for w := 0; w < workers; w++ {
		wg.Add(1)
		go func() { defer wg.Done(); tr.worker(router, ops) }()
	}
	// the stopper: short deadlines (already expired / tiny) at a random point, a second one,
	// then the long one
	stopAt := rng.Intn(3) // 0: while traffic runs, 1: after a little, 2: after the traffic
	nShort := rng.Intn(3)
	var stopWG sync.WaitGroup
	stopNo := atomic.Int64{}
	callStop := func(kind string) {
		s := int(stopNo.Add(1))
		var ctx context.Context
		var cancel context.CancelFunc
		switch kind {
		case "expired":
			ctx, cancel = context.WithCancel(context.Background())
			cancel()
		case "tiny":
			ctx, cancel = context.WithTimeout(context.Background(), time.Duration(20+rng.Intn(400))*time.Microsecond)
		default:
			ctx, cancel = context.WithTimeout(context.Background(), vStuckWait)
		}
		defer cancel()
		dl := "short"
		if kind == "long" {
			dl = "long"
		}
		rec.now(kit.Ev("StopCall", "s", s, "dl", dl))
		err := sut.group.Stop(ctx)
		res, undone := "timeout", 0
		if err == nil {
			res = "done"
			sub.stopped.Store(true)
			undone = sub.undone()
		}
		rec.now(kit.Ev("StopReturn", "s", s, "res", res, "undone", undone))
		if kind == "long" && err != nil {
			tr.stuck.Add(1)
		}
	}
	stopper := func() {
		defer stopWG.Done()
		switch stopAt {
		case 0:
		case 1:
			for i := 0; i < 50+rng.Intn(400); i++ {
				runtime.Gosched()
			}
		default:
			wg.Wait()
		}
		for i := 0; i < nShort; i++ {
			callStop([]string{"expired", "tiny"}[rng.Intn(2)])
			if rng.Intn(2) == 0 {
				runtime.Gosched()
			}
		}
		if rng.Intn(3) == 0 { // two long Stops wait on the same drain
			stopWG.Add(1)
			go func() { defer stopWG.Done(); callStop("long") }()
		}
		callStop("long")
	}
	stopWG.Add(1)
	go stopper()
	wg.Wait()
	close(trafficDone)
	stopWG.Wait()
	probeWG.Wait()
	late := int(sub.late.Load())
	rec.now(kit.Ev("End", "late", late, "stuck", int(tr.stuck.Load())))
	_ = sut.shutdown()
	rec.mu.Lock()
	evs := append([]vEvent(nil), rec.evs...)
	rec.mu.Unlock()
	sort.Slice(evs, func(i, j int) bool { return evs[i].seq < evs[j].seq })
	return evs, cfg, nil
}

// writeTrace renumbers the items densely in the order of their admission (the specification's
// item ids), keeps the results of never-admitted items out of the trace (they are checked
// here: a rejected item must not succeed) and writes the history.
func writeTrace(rep *kit.Report, rec *kit.Recorder, cfg vCfg, evs []vEvent) {
	rec.Begin(map[string]any{"cfg": map[string]any{"inflight": cfg.Inflight, "hw": cfg.Hw, "cap": cfg.Cap, "eff": cfg.Eff}}, nil)
	dense := map[int]int{}
	next := 0
	for _, e := range evs {
		if kit.Str(e.ev, "a") == "Submit" && kit.Str(e.ev, "res") == "ok" {
			for _, x := range e.ev["its"].([]any) {
				next++
				dense[x.(map[string]any)["i"].(int)] = next
			}
		}
	}
	tr := func(tag int) int {
		if d, ok := dense[tag]; ok {
			return d
		}
		return 0
	}
	for _, e := range evs {
		ev := e.ev
		switch kit.Str(ev, "a") {
		case "Submit":
			first := 0
			for j, x := range ev["its"].([]any) {
				m := x.(map[string]any)
				if d := tr(m["i"].(int)); d > 0 && j == 0 {
					first = d
				}
				delete(m, "i")
			}
			ev["first"] = first
		case "AppendStart":
			tags := ev["tags"].([]int)
			out := make([]int, len(tags))
			for j, t := range tags {
				out[j] = tr(t)
			}
			ev["tags"] = out
		case "EffStart", "EffEnd":
			ev["mid"] = tr(ev["mid"].(int))
		case "Lookup":
			res := ev["res"].(map[string]any)
			if mid, _ := res["mid"].(int); mid > 0 {
				res["mid"] = tr(mid)
			}
		case "Cancel":
			i := tr(ev["i"].(int))
			if i == 0 {
				continue
			}
			ev["i"] = i
		case "Result":
			res := ev["res"].(map[string]any)
			i := tr(ev["i"].(int))
			if i == 0 {
				if res["t"] == "ok" && propEnabled("C41") {
					rep.Violate("C41", "rejected-item-succeeded", fmt.Sprintf("item %v was never admitted by SubmitLocal but its sender received a success", ev["i"]), ev)
				}
				continue
			}
			ev["i"] = i
			if mid, _ := res["mid"].(int); mid > 0 {
				res["mid"] = tr(mid)
			}
		}
		rec.Step(ev, nil)
		rep.Cover(kit.Str(ev, "a"))
	}
}

// =================================================================================================

func TestVerifChannelAppend(t *testing.T) {
	env, ok := kit.LoadEnv()
	if !ok {
		t.Skip("not started by the verification runner")
	}
	rep := kit.NewReport(env, "channelappend")
	rec, err := kit.NewRecorder(env.TraceFile)
	if err != nil {
		t.Fatal(err)
	}
	defer func() {
		rec.Close()
		if err := rep.Finish(rec); err != nil {
			t.Fatal(err)
		}
	}()

	// ---- Method A: TLC's scripted scenarios (sim stage "scen"), then its random schedules ---------
	only := os.Getenv("VERIF_CA_ONLY") // "A" / "B": one method only (used for mutation trials)
	var all []kit.Behaviour
	if dir := os.Getenv("VERIF_BEH_DIR"); dir != "" && env.BehFile != "" && only != "B" {
		sc, err := kit.LoadBehaviours(dir + "/beh_scen.jsonl")
		if err != nil {
			rep.Infra("scenario behaviours: %v", err)
		}
		names := map[string]bool{}
		want := 0
		for _, b := range sc {
			fin, _ := b.Final.(map[string]any)
			if kit.Int(fin, "left") != 0 {
				rep.Infra("scenario %s: the script could not be run to its end by the specification", kit.Str(fin, "scen"))
				continue
			}
			want = int(kit.Int(fin, "nscen"))
			if !names[kit.Str(fin, "scen")] {
				names[kit.Str(fin, "scen")] = true
				all = append(all, b)
			}
		}
		if len(names) != want {
			rep.Infra("TLC produced %d of %d scenarios", len(names), want)
		}
		rep.Extra("scenarios", len(names))
	}
	behs, err := kit.LoadBehaviours(env.BehFile)
	if err != nil {
		rep.Infra("behaviours: %v", err)
	}
	if only == "B" {
		behs = nil
	}
	if fin, _ := firstFinal(behs); fin == "" {
		all = append(all, behs...)
	} else {
		all = behs // a replay artefact or a scenario file given directly
	}
	for i, b := range all {
		name := fmt.Sprintf("behaviour %d", i+1)
		if fin, _ := b.Final.(map[string]any); kit.Str(fin, "scen") != "" {
			name = "scenario " + kit.Str(fin, "scen")
		}
		// Half of the schedules run with WriterIdleRetention = 1ns (the specification's predictions
		// do not depend on it: reclaiming a writer that owns nothing changes nothing observable).
		tiny := i%2 == 1 || strings.HasPrefix(name, "scenario reclaim-")
		if tiny {
			rep.AddExtra("schedules_with_tiny_writer_retention", 1)
		}
		if runReplay(t, rep, env.Property, name, b, tiny) {
			return
		}
		rep.Replayed(len(b.Steps))
		if i < 2 {
			rep.Sample(map[string]any{"case": name, "behaviour_prefix": b.Steps[:min(len(b.Steps), 6)]})
		}
	}
	// ---- Method B ---------------------------------------------------------------------------------
	traces := env.Pick(40, 400)
	if only == "A" {
		traces = 0
	}
	base := env.Seed*1000003 + 7
	stuck := 0
	for i := 0; i < traces; i++ {
		evs, cfg, err := runTraffic(rep, base+int64(i), i, env.Thorough())
		if err != nil {
			rep.Infra("traffic %d: %v", i, err)
			break
		}
		last := evs[len(evs)-1].ev
		if n, _ := last["stuck"].(int); n > 0 {
			stuck++
			rep.Violate(os.Getenv("VERIF_PROPERTY"), "no-result", fmt.Sprintf("history %d (cfg %+v): %d callers did not get their results / a long Stop did not return within %s", i, cfg, n, vStuckWait),
				map[string]any{"history": i, "cfg": cfg, "events": tail(evs, 60)})
		}
		writeTrace(rep, rec, cfg, evs)
		if stuck > 0 {
			break
		}
	}
	rep.Extra("histories", traces)
}

func firstFinal(behs []kit.Behaviour) (string, bool) {
	if len(behs) == 0 {
		return "", false
	}
	fin, _ := behs[0].Final.(map[string]any)
	return kit.Str(fin, "scen"), true
}

func tail(evs []vEvent, n int) []any {
	if len(evs) > n {
		evs = evs[len(evs)-n:]
	}
	out := make([]any, len(evs))
	for i, e := range evs {
		out[i] = e.ev
	}
	return out
}

#!/bin/sh
# MANIFEST.setup_cmd: build the framework from files on disk only (offline) and warm the Go
# build cache for every harness so that the quick checks measure checking, not compiling.
set -e
cd "$(dirname "$0")"
GOBIN_1_25=/root/go/pkg/mod/golang.org/toolchain@v0.0.1-go1.25.11.linux-amd64/bin/go
if [ -x "$GOBIN_1_25" ]; then GO="$GOBIN_1_25"; else GO=go; fi
mkdir -p bin evidence replay
cp /repo/go.sum runner/go.sum
(cd runner && env -u GOSUMDB GOFLAGS=-mod=mod GOPROXY=off GOTOOLCHAIN=local "$GO" build -o ../bin/check ./cmd/check)
./bin/check --warm || true
echo "setup done"
